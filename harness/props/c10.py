"""C10 — rewritten Snowflake functions return what Snowflake documents (partial).

There is no Snowflake in the sandbox: the oracle is the documented semantics, transcribed here in Python
(`re` for REGEXP_*, `decimal` with ROUND_HALF_UP for TO_NUMBER, calendar arithmetic with month-end clamping for
DATEADD, boundary counting for DATEDIFF, hashlib for SHA2) on top of the DECISIONS taken by the Lean model
(`Fs.Rewrite`: index arithmetic, argument assignment, default/explicit DECIMAL type, DATE-vs-TIMESTAMP result type,
truth table, column names, seed domain, which SHA2 forms are answered).  Every case is executed through
fakesnow's public cursor API in several syntactic contexts (select list, WHERE, nested call, scalar subquery, CTE,
view, CTAS, INSERT … SELECT) and value AND Python type are compared.
"""
from __future__ import annotations

import datetime as dt
import hashlib
import itertools
import json
import random
import sys
import re
from decimal import ROUND_DOWN, ROUND_HALF_UP, Decimal, InvalidOperation, getcontext

from lib import common
from lib.common import dec_list, dec_str, enc_list, enc_opt, enc_str


getcontext().prec = 100   # 38-digit decimals are quantized exactly


def sql_str(s: str) -> str:
    return "'" + s.replace("\\", "\\\\").replace("'", "''") + "'"


def dollar(s: str) -> str:
    """Snowflake `$$…$$` string constant: the content is taken verbatim (no escape processing)"""
    assert "$$" not in s
    return "$$" + s + "$$"


def quote(rnd, s: str, p_dollar: float = 0.3) -> str:
    return dollar(s) if ("$" not in s and rnd.random() < p_dollar) else sql_str(s)


# ------------------------------------------------------------------------------------------------
# observation
# ------------------------------------------------------------------------------------------------
def obs_cell(x) -> str:
    if x is None:
        return "N"
    if isinstance(x, bool):
        return "B1" if x else "B0"
    if isinstance(x, int):
        return f"I{x}"
    if isinstance(x, Decimal):
        return f"D{x}"
    if isinstance(x, str):
        return "S" + x
    if isinstance(x, dt.datetime):
        return "t" + x.isoformat(sep=" ")
    if isinstance(x, dt.date):
        return "d" + x.isoformat()
    if isinstance(x, dt.time):
        return "h" + x.isoformat()
    if isinstance(x, (bytes, bytearray)):
        return "b" + bytes(x).hex()
    return f"X:{type(x).__name__}:{x!r}"


def obs_exc(e) -> str:
    import duckdb
    import snowflake.connector.errors as se
    if isinstance(e, NotImplementedError):
        return "E:notimpl"
    if isinstance(e, duckdb.ConversionException):
        return "E:conv"
    if isinstance(e, duckdb.ParserException):
        return "E:parser"
    if isinstance(e, duckdb.OutOfRangeException):
        return "E:range"
    if isinstance(e, duckdb.InvalidInputException):
        return "E:invalid"
    if isinstance(e, se.ProgrammingError) and e.errno == 2043:
        return "E:binder"
    if isinstance(e, se.ProgrammingError) and e.errno == 2003:
        return "E:catalog"
    return f"X:{type(e).__name__}:{str(e)[:80]}"


REJECTED = ("E:notimpl", "E:catalog", "E:binder", "E:parser", "E:conv", "E:invalid", "E:range")

# ------------------------------------------------------------------------------------------------
# contexts: where the construct appears
# ------------------------------------------------------------------------------------------------
CONTEXTS = ["select", "where", "nested", "subquery", "cte", "view", "ctas", "insert_select"]


def run_in_context(cur, ctx: str, x: str, uid: str) -> str:
    """execute expression `x` in context `ctx`; returns the observation of its value there"""
    try:
        if ctx == "describe":
            # the result TYPE the cursor reports: (type_code, precision, scale) of the only column
            cur.execute(f"select {x}")
            cur.fetchall()
            d = cur.description[0]
            return f"desc:{d.type_code},{d.precision},{d.scale}"
        if ctx == "select":
            cur.execute(f"select {x}")
        elif ctx == "where":
            # the value computed in WHERE must be the value computed in the select list
            cur.execute(f"select r from (select {x} as r) s where r is not distinct from ({x})")
        elif ctx == "nested":
            cur.execute(f"select coalesce({x}, {x})")
        elif ctx == "subquery":
            cur.execute(f"select (select {x})")
        elif ctx == "cte":
            cur.execute(f"with c as (select {x} as r) select r from c")
        elif ctx == "view":
            cur.execute(f"create or replace view vw_{uid} as select {x} as r")
            cur.execute(f"select r from vw_{uid}")
        elif ctx == "ctas":
            cur.execute(f"create or replace table ct_{uid} as select {x} as r")
            cur.execute(f"select r from ct_{uid}")
        elif ctx == "insert_select":
            cur.execute(f"create or replace table is_{uid} as select {x} as r from (select 1) where 1 = 0")
            cur.execute(f"insert into is_{uid} select {x}")
            cur.execute(f"select r from is_{uid}")
        rows = cur.fetchall()
        if len(rows) != 1 or len(rows[0]) != 1:
            return f"X:shape:{rows!r}"[:120]
        return obs_cell(rows[0][0])
    except Exception as e:
        return obs_exc(e)


ORDERS = [(1, 10, "AU-001"), (2, 11, "NZ-002"), (3, 10, "XX-003"), (4, 12, "AU-004")]
CUSTOMERS = {10: "alice", 11: "bob"}
REGIONS = {"AU": "Australia", "NZ": "New Zealand"}
NUMS = [(1, "a"), (2, "a"), (3, "b"), (4, "b"), (5, "b"), (6, "c"), (7, "c"), (8, "c"), (9, "c"), (10, "d"), (None, "d"), (None, "e")]
SETUP = [
    "create table orders (id int, cust_id int, code varchar)",
    "insert into orders values " + ", ".join(f"({i}, {c}, '{code}')" for i, c, code in ORDERS),
    "create table customers (cust_id int, name varchar)",
    "insert into customers values " + ", ".join(f"({k}, '{v}')" for k, v in CUSTOMERS.items()),
    "create table regions (prefix varchar, region varchar)",
    "insert into regions values " + ", ".join(f"('{k}', '{v}')" for k, v in REGIONS.items()),
    "create table one (k int)",
    "insert into one values (1)",
    "create table nums (n int, g varchar)",
    "insert into nums values " + ", ".join(f"({'null' if n is None else n}, '{g}')" for n, g in NUMS),
]


def _fresh_instance(statements):
    """a NEW FakeSnow instance (its own DuckDB) whose only session connects without naming a database"""
    import fakesnow.instance
    cur = fakesnow.instance.FakeSnow().connect().cursor()
    res = []
    for s_ in statements:
        try:
            cur.execute(s_)
            res.append("|".join(",".join(obs_cell(v) for v in row) for row in cur.fetchall()))
        except Exception as e:
            res.append(obs_exc(e))
    return res


HOST_TZS = ["America/New_York", "Asia/Kolkata", "Pacific/Auckland"]


def set_host_timezone(seed: int) -> str:
    """the host's time zone must not matter: the whole check (parent and forked workers) runs under a non-UTC process time
    zone, set before DuckDB is loaded"""
    import os
    import time as _time
    tz = HOST_TZS[seed % len(HOST_TZS)]
    if "duckdb" in sys.modules:
        raise common.Infra("DuckDB was loaded before the process time zone could be set")
    os.environ["TZ"] = tz
    _time.tzset()
    return tz


def _worker(shard):
    import fakesnow
    import snowflake.connector
    out = []
    with fakesnow.patch():
        conn = snowflake.connector.connect(database="db1", schema="s1")
        cur = conn.cursor()
        cur.execute("create table dd (d date, ts timestamp)")
        for ddl in SETUP:
            cur.execute(ddl)
        for i, (kind, payload) in enumerate(shard):
            uid = f"{i}"
            if kind == "expr":
                x, ctxs = payload
                out.append({c: run_in_context(cur, c, x, uid) for c in ctxs})
            elif kind == "query":
                try:
                    for stmt in payload[:-1]:
                        cur.execute(stmt.replace("{uid}", uid))
                    cur.execute(payload[-1].replace("{uid}", uid))
                    out.append({"query": "|".join(",".join(obs_cell(v) for v in r) for r in cur.fetchall())})
                except Exception as e:
                    out.append({"query": obs_exc(e)})
            elif kind == "datecol":
                # a DATE column operand: not syntactically a cast
                d, x = payload
                try:
                    cur.execute("delete from dd")
                    cur.execute(f"insert into dd values ('{d}', '{d} 10:00:00')")
                    cur.execute(f"select {x} from dd")
                    rows = cur.fetchall()
                    out.append({"select": obs_cell(rows[0][0])})
                except Exception as e:
                    out.append({"select": obs_exc(e)})
            elif kind in ("stmts", "stmts_nodb"):
                # a list of statements on a FRESH connection; the observation is the list of single-cell results
                # (stmts_nodb: a FRESH instance whose only session connects without naming a database)
                if kind == "stmts_nodb":
                    out.append({"stmts": _fresh_instance(payload)})
                    continue
                c2 = snowflake.connector.connect(database="db1", schema="s1").cursor()
                res = []
                for s in payload:
                    try:
                        c2.execute(s)
                        rows = c2.fetchall()
                        res.append("|".join(",".join(obs_cell(v) for v in r) for r in rows))
                    except Exception as e:
                        res.append(obs_exc(e))
                out.append({"stmts": res})
    return out


# ------------------------------------------------------------------------------------------------
# documented semantics, transcribed
# ------------------------------------------------------------------------------------------------
def rx_eval(subject, pattern, params, start, group, occ_index0):
    """occ-th (0-based) match of `pattern` in subject[start:], group `group`"""
    flags = re.IGNORECASE if params and "i" in params else 0
    ms = [m.group(group) for m in re.finditer(pattern, subject[start:], flags)]
    return ms[occ_index0] if 0 <= occ_index0 < len(ms) else None


def rr_doc(subject, pattern, repl, pos, occ, params):
    """documented REGEXP_REPLACE: from character `pos` (default 1) replace every match (occurrence 0, the default) or
    only the `occ`-th one; the part before `pos` is kept"""
    flags = re.IGNORECASE if params and "i" in params else 0
    head, tail = subject[: pos - 1], subject[pos - 1:]
    if occ == 0:
        return head + re.sub(pattern, repl, tail, flags=flags)
    ms = list(re.finditer(pattern, tail, flags))
    if occ > len(ms):
        return subject
    m = ms[occ - 1]
    return head + tail[: m.start()] + m.expand(repl) + tail[m.end():]


def dec_cast(value, is_string: bool, p: int, s: int, rounding):
    """value → DECIMAL(p, s); None when it does not fit / does not parse"""
    try:
        d = Decimal(value)
    except InvalidOperation:
        return None
    q = d.quantize(Decimal(1).scaleb(-s), rounding=rounding)
    if q == 0:
        q = abs(q)          # no negative zero in SQL
    if not fits(q, p, s):
        return None
    return q


def fits(q, p, s) -> bool:
    return q == 0 or len(q.as_tuple().digits) <= p


def add_months(d, n):
    y, m = divmod(d.year * 12 + (d.month - 1) + n, 12)
    m += 1
    last = [31, 29 if (y % 4 == 0 and (y % 100 != 0 or y % 400 == 0)) else 28, 31, 30, 31, 30, 31, 31, 30, 31, 30, 31][m - 1]
    return d.replace(year=y, month=m, day=min(d.day, last))


def dateadd_doc(unit, n, value):
    """value: date or datetime"""
    if unit == "year":
        return add_months(value, 12 * n)
    if unit == "quarter":
        return add_months(value, 3 * n)
    if unit == "month":
        return add_months(value, n)
    if unit == "week":
        return value + dt.timedelta(days=7 * n)
    if unit == "day":
        return value + dt.timedelta(days=n)
    base = value if isinstance(value, dt.datetime) else dt.datetime(value.year, value.month, value.day)
    return base + {"hour": dt.timedelta(hours=n), "minute": dt.timedelta(minutes=n), "second": dt.timedelta(seconds=n)}[unit]


def as_type(v, rtype):
    if rtype == "date":
        return v.date() if isinstance(v, dt.datetime) else v
    return v if isinstance(v, dt.datetime) else dt.datetime(v.year, v.month, v.day)


def datediff_doc(unit, a, b):
    """number of `unit` boundaries crossed between a and b"""
    A = a if isinstance(a, dt.datetime) else dt.datetime(a.year, a.month, a.day)
    B = b if isinstance(b, dt.datetime) else dt.datetime(b.year, b.month, b.day)
    if unit == "year":
        return B.year - A.year
    if unit == "quarter":
        return (B.year * 4 + (B.month - 1) // 3) - (A.year * 4 + (A.month - 1) // 3)
    if unit == "month":
        return (B.year * 12 + B.month) - (A.year * 12 + A.month)
    if unit == "day":
        return (B.date() - A.date()).days
    ep = dt.datetime(1970, 1, 1)
    secs = {"hour": 3600, "minute": 60, "second": 1}[unit]
    fa = ((A - ep).days * 86400 + (A - ep).seconds) // secs
    fb = ((B - ep).days * 86400 + (B - ep).seconds) // secs
    return fb - fa


# ------------------------------------------------------------------------------------------------
# cases
# ------------------------------------------------------------------------------------------------
def ctx_pick(rnd, quick, always=("select",), k=2):
    rest = [c for c in CONTEXTS if c not in always]
    return list(always) + rnd.sample(rest, k if quick else len(rest))


def build(chk):
    rnd = random.Random(chk.seed)
    quick = chk.tier == "quick"
    cases = []   # dict(tag, task, line, judge)

    # ---- REGEXP_SUBSTR -------------------------------------------------------------------------
    subjects = ["abc abd abe", "a1b22c333", "xyz", "", "aaa", "AbC aBd", "it's a.b", "ab"]
    patterns = [("ab.", 0), ("a(b)(.)", 2), ("\\d+", 0), ("[a-c]+", 0), ("aa", 0), ("(a)(b)?", 2), ("x", 0), ("a\\.b", 0)]
    rx = []
    for subj in subjects:
        for pat, ngroups in patterns:
            for pos in (None, 1, 2, 5, max(len(subj), 1), len(subj) + 1, len(subj) + 3):
                for occ in (None, 1, 2, 3, 4):
                    rx.append((subj, pat, ngroups, pos, occ, None, None))
            for params, group in ((["i"], None), (["c"], None), (["e"], None), (["e"], 1), (["e"], ngroups), (["i", "e"], 1), (["e", "i"], None)):
                if group is not None and (group > ngroups or group == 0):
                    continue
                rx.append((subj, pat, ngroups, rnd.choice([1, 2]), rnd.choice([1, 2]), "".join(params), group))
    rnd.shuffle(rx)
    rx = rx[: (400 if quick else 3000)]
    # 6 arguments: a given <group_num> extracts that group whatever the parameters say ('e' is implied)
    rx6 = []
    for subj in ("Hello hello", "abc abd abe", "AbC aBd", "a1b22c333"):
        for pat, ngroups in (("(h)(ello)", 2), ("a(b)(.)", 2), ("(a)(b)?", 2), ("([a-c])(\\d+)", 2)):
            for params in ("i", "c", "", "im", "e", "ie", "s"):
                for group in range(0, ngroups + 1):
                    rx6.append((subj, pat, ngroups, rnd.choice([1, 1, 2]), rnd.choice([1, 1, 2]), params, group))
    rnd.shuffle(rx6)
    rx += rx6[: (150 if quick else len(rx6))]
    fixed_rx = [("abc abd abe", "ab.", 0, 5, 1, None, None), ("abc abd abe", "a(b)(.)", 2, 1, 2, "e", None), ("abc abd abe", "a(b)(.)", 2, 1, 2, "e", 2),
                ("Hello hello", "(h)(ello)", 2, 1, 1, "i", 2), ("Hello hello", "(h)(ello)", 2, 1, 1, "c", 1), ("Hello hello", "(h)(ello)", 2, 1, 1, "", 0)]
    rx += fixed_rx

    for ci, (subj, pat, ng, pos, occ, params, group) in enumerate(rx):
        args = [sql_str(subj), sql_str(pat)] if ci >= len(rx) - len(fixed_rx) else [quote(rnd, subj), quote(rnd, pat)]
        # positional arguments: later ones force the earlier ones
        npos = 5 if group is not None else 4 if params is not None else 3 if occ is not None else 2 if pos is not None else 1
        vals = [pos if pos is not None else 1, occ if occ is not None else 1, params if params is not None else "c", group]
        shown = [pos, occ, params, group]
        for i in range(npos - 1):
            v = vals[i]
            shown[i] = v
            args.append(sql_str(v) if isinstance(v, str) else str(v))
        pos2, occ2, params2, group2 = shown
        x = f"regexp_substr({', '.join(args)})"
        line = "rewrite\trx\t" + "\t".join([common.enc_opt(None) if pos2 is None else str(pos2), "-" if occ2 is None else str(occ2),
                                             enc_opt(params2), "-" if group2 is None else str(group2)])
        cases.append({"tag": "regexp_substr", "task": ("expr", (x, ctx_pick(rnd, quick))), "line": line, "x": x,
                      "judge": ("rx", subj, pat, params2 or "")})
    cases.append({"tag": "regexp_substr:null", "task": ("expr", ("regexp_substr(null, 'x')", ["select"])), "line": None, "x": "regexp_substr(null, 'x')",
                  "judge": ("fixed", "N", "E:parser", "C10/regexp-substr-null-subject")})

    # ---- TO_NUMBER family ----------------------------------------------------------------------
    strs = ["12345678901234567890", "12.5", "2.5", "-2.5", "0.5", "-0.5", "1.005", "12.345", "12.355", "0.125", "99.995", "7", "-0", "123456", "abc", "", "1.5.2"]
    nums = ["12.345", "12.355", "2.5", "3.5", "-2.5", "0.125", "0.135", "7", "12.34", "99.995"]
    argsets = [[], [10], [10, 1], [10, 2], [5, 0], [38, 0], [4, 2], ["s"], ["s", 10], ["s", 10, 2], [20, 10], [38, 37], [30, 12], [38, 10], [12, 11], [25, 19]]
    fns = ["to_number", "to_decimal", "to_numeric", "try_to_number", "try_to_decimal", "try_to_numeric"]
    combos = [(fn, v, True, a) for fn in fns for v in strs for a in argsets] + [(fn, v, False, a) for fn in fns[:3] for v in nums for a in argsets[:7]]
    rnd.shuffle(combos)
    combos = combos[: (500 if quick else 3000)]
    n_fixed_from = len(combos)
    combos += [("to_number", "12.5", True, []), ("to_number", "12.5", True, [10]), ("to_number", "12.5", True, [10, 1]), ("to_decimal", "2.5", True, []),
               ("to_number", "12.345", False, [10, 2]), ("to_number", "99.995", True, [4, 2]), ("to_number", "12", True, ["s"]), ("to_number", "12345678901234567890", True, []), ("to_decimal", "12345678901234567890", True, []),
               ("try_to_number", "12345678901234567890123456789012345678", True, []), ("try_to_number", "abc", True, [])]
    for ci, (fn, v, is_str, a) in enumerate(combos):
        pd = 0.0 if ci >= n_fixed_from else 0.2
        lit = quote(rnd, v, pd) if is_str else v
        extra = "".join(", " + (quote(rnd, "99.99", pd) if t == "s" else str(t)) for t in a)
        x = f"{fn}({lit}{extra})"
        model_fn = "to_number" if fn == "to_number" else "anon"
        line = f"rewrite\ttonum\t{model_fn}\t" + enc_list(["s" if t == "s" else f"n{t}" for t in a])
        cases.append({"tag": f"to_number:{fn}", "task": ("expr", (x, ctx_pick(rnd, quick) + ["describe"])), "line": line, "x": x,
                      "judge": ("tonum", fn, v, is_str)})
    # casts to NUMBER(p,s) and the reported type of every decimal-family result (precision/scale grids incl. scales 10..37)
    grid = [(p, sc) for p in (1, 9, 10, 18, 19, 28, 37, 38) for sc in (0, 1, 9, 10, 11, 18, 19, 27, 36, 37) if sc < p or (sc == 0)]
    rnd.shuffle(grid)
    for p_, sc in grid[: (24 if quick else len(grid))] + [(20, 10), (38, 37), (11, 10)]:
        v = "0." + "1" * min(sc, 5) if sc else "7"
        for x in (f"to_decimal('{v}', {p_}, {sc})", f"'{v}'::number({p_}, {sc})", f"cast('{v}' as decimal({p_}, {sc}))", f"try_to_numeric('{v}', {p_}, {sc})", f"to_number({v}, {p_}, {sc})"):
            want = Decimal(v).quantize(Decimal(1).scaleb(-sc))
            cases.append({"tag": "decimal:described-type", "task": ("expr", (x, ["select", "describe"] + rnd.sample(CONTEXTS[1:], 1))), "line": f"rewrite\tdecdesc\t{p_}\t{sc}", "x": x,
                          "judge": ("decdesc", f"D{want}")})

    # ---- DATEADD -------------------------------------------------------------------------------
    dates = ["2023-01-31", "2024-02-29", "2023-02-28", "2023-03-31", "2023-12-31", "1970-01-01", "1969-12-31", "2000-02-29", "2023-05-31", "2100-02-28"]
    units = {"year": "year y yy yyy yyyy yr years yrs".split(), "quarter": "quarter q qtr qtrs quarters".split(), "month": "month mm mon mons months".split(),
             "week": "week w wk weekofyear woy wy".split(), "day": "day d dd days dayofmonth".split(), "hour": "hour h hh hr hours hrs".split(),
             "minute": "minute m mi min minutes mins".split(), "second": "second s sec seconds secs".split()}
    dcombos = []
    for d in dates:
        for unit in units:
            for n in (1, -1, 3, 12, -13, 0):
                for shape in ("castDate", "castDate2", "toDate", "strLit", "tsExpr", "dateExpr"):
                    dcombos.append((d, unit, n, shape))
    rnd.shuffle(dcombos)
    dcombos = dcombos[: (600 if quick else 2880)]
    fixed_d = [("2023-01-31", "month", 1, "castDate"), ("2023-01-31", "quarter", 1, "castDate"), ("2023-01-31", "day", 1, "dateExpr"), ("2023-01-31", "hour", 1, "castDate")]
    for ci, (d, unit, n, shape) in enumerate(fixed_d + dcombos):
        spelled = unit if ci < len(fixed_d) else rnd.choice(units[unit])
        if shape == "castDate":
            operand, mshape, base = (f"'{d}'::date" if ci < len(fixed_d) else quote(rnd, d, 0.2) + "::date"), "castDate", dt.date.fromisoformat(d)
        elif shape == "castDate2":
            operand, mshape, base = f"cast('{d}' as date)", "castDate", dt.date.fromisoformat(d)
        elif shape == "toDate":
            operand, mshape, base = f"to_date('{d}')", "castDate", dt.date.fromisoformat(d)
        elif shape == "strLit":
            operand, mshape, base = quote(rnd, f"{d} 10:30:00"), "strLit", dt.datetime.fromisoformat(d + " 10:30:00")
        elif shape == "tsExpr":
            operand, mshape, base = f"'{d} 23:59:59'::timestamp", "tsExpr", dt.datetime.fromisoformat(d + " 23:59:59")
        else:
            operand, mshape, base = "d", "dateExpr", dt.date.fromisoformat(d)
        x = f"dateadd({spelled}, {n}, {operand})"
        task = ("datecol", (d, x)) if shape == "dateExpr" else ("expr", (x, ctx_pick(rnd, quick)))
        cases.append({"tag": f"dateadd:{unit}:{mshape}", "task": task, "line": f"rewrite\tdateadd\t{unit}\t{mshape}", "x": x,
                      "judge": ("dateadd", unit, n, base)})

    # ---- every rewritten function as the OPERAND of a cast to text / date / time, in all contexts ------------------------------
    opc = [("to_timestamp(1700000000)::varchar", "TS:2023-11-14 22:13:20"), ("to_timestamp(1700000000)::string", "TS:2023-11-14 22:13:20"), ("cast(to_timestamp(1700000000) as varchar)", "TS:2023-11-14 22:13:20"),
           ("to_timestamp(1700000000, 0)::varchar", "TS:2023-11-14 22:13:20"), ("to_timestamp(1700000000123, 3)::varchar", "TS:2023-11-14 22:13:20.123"), ("to_timestamp_ntz(0)::varchar", "TS:1970-01-01 00:00:00"),
           ("to_timestamp(1700000000)::date", "d2023-11-14"), ("to_timestamp(86399)::date", "d1970-01-01"), ("to_timestamp(1700000000)::time", "h22:13:20"), ("to_timestamp_ntz(1700000000, 0)::time", "h22:13:20"),
           ("to_timestamp(1700000000)::timestamp", "t2023-11-14 22:13:20"), ("to_timestamp('2023-01-05 10:00:00')::varchar", "TS:2023-01-05 10:00:00"), ("to_timestamp('2023-01-05 10:00:00')::date", "d2023-01-05"),
           ("dateadd(day, 1, '2023-01-31'::date)::varchar", "S2023-02-01"), ("dateadd(hour, 1, '2023-01-31 10:00:00')::time", "h11:00:00"), ("dateadd(day, 1, '2023-01-31 10:00:00')::date", "d2023-02-01"),
           ("to_date('2023-01-05')::varchar", "S2023-01-05"), ("to_date('2023-01-05')::timestamp", "t2023-01-05 00:00:00"), ("to_number('12.5', 10, 1)::varchar", "S12.5"), ("to_number('12.5')::int", "I13"),
           ("regexp_substr('a12b', '[0-9]+')::int", "I12"), ("regexp_replace('1a2', 'a', '')::int", "I12"), ("datediff(day, '2023-01-01', '2023-01-03')::varchar", "S2"),
           ("length(to_timestamp(1700000000)::varchar)", "I19"), ("to_timestamp(1700000000)::varchar || 'Z'", "TS:2023-11-14 22:13:20Z"), ("upper(to_timestamp(0)::varchar)", "TS:1970-01-01 00:00:00")]
    for x, want in opc:
        cases.append({"tag": "operand-of-cast", "task": ("expr", (x, CONTEXTS)), "line": None, "x": x, "judge": ("fixed", want, None, None)})

    # ---- DATEDIFF / DATEADD: operand kinds × parts ---------------------------------------------------------------------------------------------
    kinds = {"litdate": lambda d, t: (f"'{d}'", dt.datetime.fromisoformat(d)), "litts": lambda d, t: (f"'{d} {t}'", dt.datetime.fromisoformat(f"{d} {t}")),
             "castdate": lambda d, t: (f"'{d}'::date", dt.date.fromisoformat(d)), "castdate2": lambda d, t: (f"cast('{d} {t}' as date)", dt.date.fromisoformat(d)),
             "castts": lambda d, t: (f"'{d} {t}'::timestamp", dt.datetime.fromisoformat(f"{d} {t}")), "todate": lambda d, t: (f"to_date('{d}')", dt.date.fromisoformat(d))}
    dd_pairs = [("2023-02-28", "23:59:30", "2023-03-01", "10:30:00"), ("2023-03-01", "00:00:01", "2023-02-28", "23:00:00"), ("2024-02-29", "12:00:00", "2024-02-29", "12:59:59"),
                ("2022-12-31", "23:59:59", "2023-01-01", "00:00:00"), ("2023-06-15", "08:15:00", "2023-06-15", "08:15:00")]
    combos_dd = [(k1, k2, u, pr) for k1 in kinds for k2 in kinds for u in ("hour", "minute", "second", "day", "month", "year") for pr in dd_pairs]
    rnd.shuffle(combos_dd)
    fixed_dd = [("castdate", "litts", "hour", dd_pairs[0]), ("litts", "castdate", "minute", dd_pairs[0]), ("litdate", "litts", "hour", dd_pairs[0]), ("castts", "castdate", "second", dd_pairs[1])]
    for k1, k2, u, (d1, t1, d2, t2) in fixed_dd + combos_dd[: (150 if quick else 1500)]:
        (s1, v1), (s2, v2) = kinds[k1](d1, t1), kinds[k2](d2, t2)
        x = f"datediff({u}, {s1}, {s2})"
        cases.append({"tag": f"datediff:kinds:{k1}:{k2}", "task": ("expr", (x, ctx_pick(rnd, quick, k=1))), "line": None, "x": x, "judge": ("fixed", f"I{datediff_doc(u, v1, v2)}", None, None)})
    for u in ("hour", "minute", "day", "month"):
        for which in ("d", "ts"):
            for k2 in ("litts", "castdate", "castts"):
                d1, t1, d2, t2 = dd_pairs[0]
                s2, v2 = kinds[k2](d2, t2)
                v1 = dt.date.fromisoformat(d1) if which == "d" else dt.datetime.fromisoformat(f"{d1} 10:00:00")
                x = f"datediff({u}, {which}, {s2})"
                cases.append({"tag": "datediff:kinds:column", "task": ("datecol", (d1, x)), "line": None, "x": x, "judge": ("fixed", f"I{datediff_doc(u, v1, v2)}", None, None)})

    # ---- one-parameter NUMBER(p) / DECIMAL(p) / NUMERIC(p): scale 0, precision p (values of p and p+1 digits) -------------
    for p_ in (1, 2, 5, 9, 10, 18, 19, 37):
        for digits in (p_, p_ + 1):
            v = ("9" * digits) if digits < 39 else "1" * 38
            for neg in ("", "-"):
                for tyname in ("number", "decimal", "numeric"):
                    fits_p = digits <= p_
                    for x, want in ((f"'{neg}{v}'::{tyname}({p_})", f"D{neg}{v}" if fits_p else "E:conv"),
                                    (f"cast('{neg}{v}' as {tyname}({p_}))", f"D{neg}{v}" if fits_p else "E:conv"),
                                    (f"try_cast('{neg}{v}' as {tyname}({p_}))", f"D{neg}{v}" if fits_p else "N")):
                        if quick and rnd.random() < 0.6:
                            continue
                        cases.append({"tag": "decimal:one-parameter", "task": ("expr", (x, ["select", "describe"] + rnd.sample(CONTEXTS[1:], 1))), "line": f"rewrite\tdecdesc\t{p_}\t0",
                                      "x": x, "judge": ("decdesc", want)})
    for x, want in [("'12.5'::number(5)", "D13"), ("'123456'::number(5)", "E:conv"), ("try_cast('123456' as number(5))", "N"), ("'12345'::number(5)", "D12345")]:
        cases.append({"tag": "decimal:one-parameter", "task": ("expr", (x, CONTEXTS + ["describe"])), "line": "rewrite\tdecdesc\t5\t0", "x": x, "judge": ("decdesc", want)})
    cases.append({"tag": "decimal:one-parameter:column", "x": "create table np (a number(3)); insert into np values (1000000)",
                  "task": ("stmts", ["create or replace table np_t (a number(3), b decimal(5), c numeric(2))", "insert into np_t values (999, 99999, 99)", "select a, b, c from np_t",
                                     "insert into np_t values (1000000, 1, 1)", "insert into np_t values (1, 1, 100)", "select count(*) from np_t"]),
                  "line": None, "judge": ("stmts_exact", [None, "I1", "D999,D99999,D99", "E:conv", "E:conv", "I1"])})

    # ---- rewritten functions nested one level deep in themselves and in each other -----------------------------------------
    nested = [("regexp_replace(regexp_replace('aaa bbb', 'a', 'x'), 'b', 'y')", "Sxxx yyy"), ("regexp_replace(regexp_replace('aaa bbb', 'a', 'x', 1, 1), 'b', 'y')", "REJECTED_OR:Sxaa yyy"),
              ("regexp_replace(regexp_replace('aaa bbb', 'a'), 'b')", "S "), ("regexp_substr(regexp_replace('aaa bbb', 'a', 'x'), 'x+')", "Sxxx"),
              ("regexp_replace(regexp_substr('abc abd', 'ab.', 1, 2), 'b', 'X')", "SaXd"), ("regexp_substr(regexp_substr('abc abd abe', 'ab. ab.', 1, 1), 'ab.', 1, 2)", "Sabd"),
              ("trim(regexp_replace(' aaa ', 'a', 'x'))", "Sxxx"), ("regexp_replace(trim('  aaa  '), 'a', 'x')", "Sxxx"), ("to_number(regexp_replace('1a2a', 'a', ''))", "D12"),
              ("to_number(trim(' 12 '))", "D12"), ("to_decimal(regexp_substr('x 12.5 y', '[0-9.]+'), 10, 1)", "D12.5"), ("split(regexp_replace('a,a', 'a', 'b'), ',')", 'S["b","b"]'),
              ("regexp_replace(upper(regexp_replace('aaa', 'a', 'b')), 'B', 'c')", "Sccc"), ("sha2(trim(' abc '))", "S" + hashlib.sha256(b"abc").hexdigest()),
              ("sha2(regexp_replace('aXbXc', 'X', ''))", "S" + hashlib.sha256(b"abc").hexdigest()), ("equal_null(regexp_replace('aa', 'a', 'b'), 'bb')", "B1"),
              ("equal_null(to_number('2.5'), to_number('3'))", "B1"), ("to_number(to_number('2.5'))", "D3"), ("to_number(to_decimal('12.34', 10, 2), 10, 1)", "REJECTED_OR:D12.3"),
              ("datediff(day, dateadd(day, 1, '2023-01-31'::date), '2023-02-05'::date)", "I4"), ("datediff(month, to_date('2023-01-31'), dateadd(month, 2, '2023-01-31'::date))", "I2"),
              ("dateadd(day, 1, to_date('2023-01-31'))", "d2023-02-01"), ("dateadd(day, 1, dateadd(hour, 1, '2023-01-31 23:30:00'))", "t2023-02-02 00:30:00"),
              ("dateadd(month, 1, dateadd(month, 1, '2023-01-31 10:00:00'::timestamp))", "t2023-03-28 10:00:00"), ("dateadd(day, 1, to_timestamp(1700000000, 0))", "t2023-11-15 22:13:20"),
              ("to_date(dateadd(day, 1, '2023-01-31 10:00:00'::timestamp))", "d2023-02-01"), ("datediff(day, to_timestamp(0), to_timestamp(86400, 0))", "I1"),
              ("regexp_replace(regexp_replace($$a1b2$$, $$\\d$$, ''), 'b', 'c')", "Sac")]
    for x, want in nested:
        cases.append({"tag": "nested-rewrites", "task": ("expr", (x, CONTEXTS)), "line": None, "x": x, "judge": ("fixed", want, None, None)})
    cases.append({"tag": "nested-rewrites", "task": ("expr", ("dateadd(day, 1, dateadd(month, 1, '2023-01-31'::date))", ["select", "cte"])), "line": None,
                  "x": "dateadd(day, 1, dateadd(month, 1, '2023-01-31'::date))", "judge": ("fixed", "d2023-03-01", "t2023-03-01 00:00:00", "C10/dateadd-date-expression")})
    cases.append({"tag": "nested-rewrites:dml", "x": "update … set s = regexp_replace(regexp_replace(s, 'a', 'x'), 'b', 'y')",
                  "task": ("stmts", ["create or replace table nr_t (s varchar)", "insert into nr_t values ('aaa bbb')", "update nr_t set s = regexp_replace(regexp_replace(s, 'a', 'x'), 'b', 'y')",
                                     "select s from nr_t", "create or replace view nr_v as select regexp_replace(regexp_replace(s, 'x', 'a'), 'y', 'b') as r from nr_t", "select r from nr_v"]),
                  "line": None, "judge": ("stmts_exact", [None, "I1", None, "Sxxx yyy", None, "Saaa bbb"])})

    # ---- TO_TIMESTAMP / TO_TIMESTAMP_NTZ of integers (epoch seconds / scaled) ------------------------------------
    fracs = {None: (0, 0), 0: (0, 0), 3: (123, 123000), 6: (123456, 123456), 9: (123456000, 123456)}
    for fn in ("to_timestamp", "to_timestamp_ntz"):
        for secs in (0, 86399, 951782400, 1700000000, 4102444799):
            for scale, (frac, micros) in fracs.items():
                n = secs * 10 ** (scale or 0) + frac
                x = f"{fn}({n})" if scale is None else f"{fn}({n}, {scale})"
                want = dt.datetime(1970, 1, 1) + dt.timedelta(seconds=secs, microseconds=micros)
                cases.append({"tag": f"to_timestamp:scale{scale}", "task": ("expr", (x, ctx_pick(rnd, quick) + ["describe"])), "line": f"rewrite\ttots\t{'-' if scale is None else scale}",
                              "x": x, "judge": ("tots", obs_cell(want))})
        for x, want in [(f"dateadd(day, 1, {fn}(1700000000, 0))", dt.datetime(2023, 11, 15, 22, 13, 20)), (f"dateadd(hour, 1, {fn}(1700000000123456000, 9))", dt.datetime(2023, 11, 14, 23, 13, 20, 123456)),
                        (f"{fn}('1700000000')", dt.datetime(2023, 11, 14, 22, 13, 20)), (f"{fn}('2023-01-05 10:00:00')", dt.datetime(2023, 1, 5, 10, 0))]:
            cases.append({"tag": "to_timestamp:other", "task": ("expr", (x, CONTEXTS + ["describe"])), "line": "rewrite\ttots\t-", "x": x, "judge": ("tots", obs_cell(want))})
    cases.append({"tag": "to_timestamp:float", "task": ("expr", ("to_timestamp(1700000000.5)", ["select"])), "line": None, "x": "to_timestamp(1700000000.5)",
                  "judge": ("fixed", "t2023-11-14 22:13:20.500000", "t2023-11-14 22:13:20.500000+00:00", "C10/to-timestamp-float-tz-aware")})

    # ---- the session time zone is UTC however the session came to its database ---------------------------------------------
    tzq = [("select to_timestamp(0)", "t1970-01-01 00:00:00"), ("select to_timestamp(1709251199)", "t2024-02-29 23:59:59"), ("select to_date(to_timestamp(0))", "d1970-01-01"),
           ("select dateadd(hour, 1, to_timestamp(0))", "t1970-01-01 01:00:00"), ("select datediff(day, '1970-01-01', to_timestamp(3600))", "I0"),
           ("select to_timestamp_ntz(1700000000123, 3)", "t2023-11-14 22:13:20.123000"), ("select to_timestamp('2023-01-05 10:00:00')", "t2023-01-05 10:00:00")]
    for pre in (["create database tzdb", "use database tzdb", "create schema s", "use schema s"], ["create database tzdb2", "use database tzdb2"], []):
        cases.append({"tag": "timezone:connect-without-database", "x": "connect(); " + "; ".join(pre + [q for q, _ in tzq]),
                      "task": ("stmts_nodb", pre + [q for q, _ in tzq]), "line": None, "judge": ("stmts_exact", [None] * len(pre) + [w for _, w in tzq])})
    cases.append({"tag": "timezone:second-connection", "x": "second connection: " + "; ".join(q for q, _ in tzq), "task": ("stmts", [q for q, _ in tzq]), "line": None,
                  "judge": ("stmts_exact", [w for _, w in tzq])})

    # ---- DATEDIFF (oracle only, no Lean model: DuckDB's date_diff + the literal cast) -------------
    pairs = [("2022-12-31", "2023-01-01"), ("2023-01-31", "2023-02-01"), ("2023-01-01", "2023-01-01"), ("2024-02-29", "2023-02-28"), ("1969-12-31", "1970-01-01"),
             ("2023-03-31", "2023-04-01"), ("2023-01-01", "2024-01-01")]
    for a, b in pairs:
        for unit in ("year", "quarter", "month", "day"):
            for form in ("'{}'::date", "'{}'"):
                x = f"datediff({unit}, {form.format(a)}, {form.format(b)})"
                want = datediff_doc(unit, dt.date.fromisoformat(a), dt.date.fromisoformat(b))
                cases.append({"tag": "datediff", "task": ("expr", (x, ctx_pick(rnd, quick, k=1))), "line": None, "x": x, "judge": ("fixed", f"I{want}", None, None)})
    for a, b in [("2023-01-01 00:59:59", "2023-01-01 01:00:00"), ("2023-01-01 00:00:00", "2023-01-01 00:00:59"), ("2022-12-31 23:59:59", "2023-01-01 00:00:00")]:
        for unit in ("hour", "minute", "second", "day", "year"):
            x = f"datediff({unit}, '{a}'::timestamp, '{b}'::timestamp)"
            want = datediff_doc(unit, dt.datetime.fromisoformat(a), dt.datetime.fromisoformat(b))
            cases.append({"tag": "datediff", "task": ("expr", (x, ["select", "where"])), "line": None, "x": x, "judge": ("fixed", f"I{want}", None, None)})

    # ---- EQUAL_NULL ------------------------------------------------------------------------------
    vals = [None, 0, 1, -1, 7]
    for a, b in itertools.product(vals, repeat=2):
        for ty in ("int", "str"):
            f = (lambda v: "null" if v is None else str(v)) if ty == "int" else (lambda v: "null" if v is None else sql_str(f"v{v}"))
            x = f"equal_null({f(a)}, {f(b)})"
            line = f"rewrite\teqnull\t{'-' if a is None else a}\t{'-' if b is None else b}"
            cases.append({"tag": "equal_null", "task": ("expr", (x, ctx_pick(rnd, quick))), "line": line, "x": x, "judge": ("eqnull",)})
    cases.append({"tag": "equal_null:created-database", "x": "create database dbx; use database dbx; select equal_null(1, 1)",
                  "task": ("stmts", ["create database dbx", "use database dbx", "create schema sx", "select equal_null(1, 1)"]), "line": None,
                  "judge": ("stmts_last", "B1", "E:catalog", "C10/equal-null-created-database")})

    # ---- VALUES columnN ----------------------------------------------------------------------------
    for n in (1, 2, 3, 11):
        row = ", ".join(str(i * 7) for i in range(n))
        names = ", ".join(f"column{i + 1}" for i in range(n))
        rev = ", ".join(f"column{i + 1}" for i in reversed(range(n)))
        for sql, want in ((f"select {names} from values ({row}), ({row})", ",".join(f"I{i * 7}" for i in range(n))),
                          (f"select {rev} from (values ({row}))", ",".join(f"I{i * 7}" for i in reversed(range(n)))),
                          (f"select COLUMN{n} from values ({row})", f"I{(n - 1) * 7}"),
                          (f"with c as (select * from values ({row})) select column{n} from c", f"I{(n - 1) * 7}")):
            cases.append({"tag": "values", "x": sql, "task": ("stmts", [sql]), "line": f"rewrite\tvalues\t{n}\t1\t0",
                          "judge": ("values", n, want, sql)})

    nn_all = [n for n, _ in NUMS if n is not None]
    vj = [("select n, column2 from nums join values (1, 'one'), (2, 'two') on n = column1 order by n", "I1,Sone|I2,Stwo"),
          ("select n, column2 from nums inner join (values (1, 'one'), (2, 'two')) on nums.n = column1 order by n", "I1,Sone|I2,Stwo"),
          ("select n, column2 from nums left join (values (1, 'one')) on n = column1 where n < 3 order by n", "I1,Sone|I2,N"),
          ("select n, column1 from nums, (values (7)) where n = column1", "I7,I7"),
          ("select n, column1 from nums cross join (values (7)) where n = 1", "I1,I7"),
          ("select column1, column2 from (values (1, 'a'), (2, 'b')) order by column1 desc", "I2,Sb|I1,Sa"),
          ("with c as (select n, column2 as w from nums join (values (3, 'three')) on n = column1) select n, w from c", "I3,Sthree"),
          ("select n from nums where n in (select column1 from values (2), (4)) order by n", "I2|I4"),
          ("select (select column2 from values (5, 'five')) as w", "Sfive"),
          ("select g, column2 from nums join (values ('a', 10), ('d', 40)) on g = column1 where n is not null order by n", "Sa,I10|Sa,I10|Sd,I40"),
          ]
    for sql, want in vj:
        cases.append({"tag": "values:join-positions", "x": sql, "task": ("query", [sql]), "line": None, "judge": ("query_fixed", want)})
    cases.append({"tag": "values:insert-select", "x": "insert into … select n, column2 from nums join values (..) on n = column1",
                  "task": ("stmts", ["create or replace table vj_t (n int, w varchar)", "insert into vj_t select n, column2 from nums join values (1, 'one'), (2, 'two') on n = column1",
                                     "select n, w from vj_t order by n", "insert into vj_t select column1, column2 from values (9, 'nine')", "select count(*) from vj_t"]),
                  "line": None, "judge": ("stmts_exact", [None, "I2", "I1,Sone|I2,Stwo", "I1", "I3"])})

    # ---- RANDOM ------------------------------------------------------------------------------------
    seeds = [0, 1, 42, 2147483647, 3221225470, 123456789] + [rnd.randint(0, 2**31 - 1) for _ in range(4 if quick else 40)]
    for s in seeds:
        cases.append({"tag": "random:seeded", "x": f"select random({s})", "task": ("stmts", [f"select random({s})", f"select random({s})", f"select random({s + 1})"]),
                      "line": f"rewrite\tseed\t{s}", "judge": ("random_seeded", s)})
    cases.append({"tag": "random:twice", "x": "select random(1), random(1)", "task": ("stmts", ["select random(1), random(1)"]), "line": "rewrite\trandom\tl1;l1",
                  "judge": ("random_twice",)})
    cases.append({"tag": "random:negative-seed", "x": "select random(-5)", "task": ("stmts", ["select random(-5)", "select random(-5)"]), "line": "rewrite\trandom\tother",
                  "judge": ("random_negative",)})
    cases.append({"tag": "random:nested-select", "x": "with c as (select random(7) as r) select r from c",
                  "task": ("stmts", ["with c as (select random(7) as r) select r from c", "with c as (select random(7) as r) select r from c"]), "line": None,
                  "judge": ("random_nested",)})
    cases.append({"tag": "random:view", "x": "create view rv as select random(7) as r; select r from rv",
                  "task": ("stmts", ["create or replace view rv as select random(7) as r", "select r from rv"]), "line": "rewrite\trandom\tl7", "judge": ("random_int",)})

    # ---- SHA2 ----------------------------------------------------------------------------------------
    for s in ["abc", "", "it's", "äö", "a" * 100]:
        for fn in ("sha2", "sha2_hex", "sha2_binary"):
            for ln in (None, 256, 224, 384, 512, 128):
                x = f"{fn}({quote(rnd, s)}" + (f", {ln})" if ln is not None else ")")
                cases.append({"tag": f"sha2:{fn}", "task": ("expr", (x, ctx_pick(rnd, quick, k=1))), "line": f"rewrite\tsha2\t{fn}\t{'-' if ln is None else ln}", "x": x,
                              "judge": ("sha2", s, ln)})
    for fn in ("sha2", "sha2_hex", "sha2_binary"):
        for size in ("-256", "0", "-1", "255", "1024", "-224", "256 - 512"):
            x = f"{fn}('abc', {size})"
            if fn == "sha2" and not size.isdigit():
                # sqlglot's own SHA2 node with a size that is not a bare number literal: the 256-bit digest is answered
                cases.append({"tag": "sha2:invalid-size", "task": ("expr", (x, ["select", "where"])), "line": None, "x": x,
                              "judge": ("fixed", "REJECTED", "S" + hashlib.sha256(b"abc").hexdigest(), "C10/sha2-nonliteral-size-answered")})
            else:
                cases.append({"tag": "sha2:invalid-size", "task": ("expr", (x, ["select", "where"])), "line": None, "x": x, "judge": ("rejected",)})
    cases.append({"tag": "sha2:null", "task": ("expr", ("sha2(null)", ["select"])), "line": None, "x": "sha2(null)", "judge": ("fixed", "N", None, None)})

    # ---- TRIM ----------------------------------------------------------------------------------------
    for s_ in ["  a  ", "xxaxx", "a", "", "  ", " x a x ", "\ta\t", "xyxaxy"]:
        for chars in (None, "x", " x", "a", "xy"):
            for cast in (None, "::varchar", "::string", "::text", "cast"):
                if cast and quick and rnd.random() < 0.5 and not (s_ == "xxaxx" and chars == "x"):
                    continue
                fixed = s_ == "xxaxx" and chars == "x"
                lit = sql_str(s_) if fixed else quote(rnd, s_)
                operand = lit if cast is None else f"cast({lit} as varchar)" if cast == "cast" else lit + cast
                x = f"trim({operand}" + (f", {sql_str(chars) if fixed else quote(rnd, chars)})" if chars is not None else ")")
                cases.append({"tag": "trim" if cast is None else "trim:text-cast", "task": ("expr", (x, ctx_pick(rnd, quick, k=1))),
                              "line": f"rewrite\ttrim\t{enc_str(s_)}\t{enc_opt(chars)}\t{'0' if cast is None else '1'}", "x": x, "judge": ("model_text",)})

    # ---- REGEXP_REPLACE, TO_DATE, TO_TIMESTAMP (oracle only) ---------------------------------------------
    rr_subjects = ["aaa", "a1b2c3", "abcabc", "AbAb", "", "a.a.a", "it's 1 2"]
    rr_patterns = ["a", "\\d", "b", "[ab]", "a\\.", "(b)(c)?", "x"]
    rr = []
    for subj in rr_subjects:
        for pat in rr_patterns:
            for repl in (None, "X", "", "[\\1]" if "(" in pat else "#"):
                rr.append((subj, pat, repl, None, None, None))
            # 4-6 arguments: position / occurrence / parameters at and off their defaults
            for pos in (1, 2, 3):
                rr.append((subj, pat, "X", pos, None, None))
                for occ in (0, 1, 2):
                    rr.append((subj, pat, "X", pos, occ, None))
                    for params in ("c", "i"):
                        rr.append((subj, pat, "X", pos, occ, params))
    rnd.shuffle(rr)
    rr = rr[: (260 if quick else 2500)]
    rr += [("aaa", "a", "b", 1, 1, None), ("aaa", "a", "b", 1, 0, None), ("aaa", "a", "b", 1, None, None), ("a1b2c3", "\\d", "", None, None, None),
           ("abcabc", "b", None, None, None, None), ("AbAb", "a", "X", 1, 0, "i"), ("abc", "(b)", "[\\1]", None, None, None)]
    for ci, (subj, pat, repl, pos, occ, params) in enumerate(rr):
        fixed = ci >= len(rr) - 7
        # the pattern is written `$$…$$` in a third of the cases (a RawString node, not a Literal)
        pat_dollar = (not fixed and rnd.random() < 0.35) or (fixed and pat == "\\d")
        args = [sql_str(subj) if fixed else quote(rnd, subj), dollar(pat) if pat_dollar else sql_str(pat)]
        if repl is not None:
            args.append(sql_str(repl) if fixed else quote(rnd, repl, 0.2))
        for v in (pos, occ):
            if v is not None:
                args.append(str(v))
        if params is not None:
            args.append(sql_str(params))
        x = f"regexp_replace({', '.join(args)})"
        want = rr_doc(subj, pat, repl or "", pos or 1, occ or 0, params)
        line = "rewrite\trr\t" + "\t".join(["raw" if pat_dollar else "lit", "1" if repl is not None else "0", "-" if pos is None else str(pos),
                                             "-" if occ is None else str(occ), enc_opt(params)])
        cases.append({"tag": "regexp_replace", "task": ("expr", (x, ctx_pick(rnd, quick, k=2))), "line": line, "x": x, "judge": ("rr", "S" + want)})
    # `$$…$$` arguments of the other rewritten functions (oracle: the same call with ordinary literals)
    for x, want in [("split($$a,b$$, $$,$$)", 'S["a","b"]'), ("split($$a.b$$, $$.$$)", 'S["a","b"]'), ("regexp_substr($$a1b22$$, $$\\d+$$, 1, 2)", "S22"),
                    ("regexp_substr('a.b', $$a\\.b$$)", "Sa.b"), ("trim($$  a  $$)", "Sa"), ("equal_null($$a$$, 'a')", "B1"),
                    ("datediff(day, $$2023-01-01$$, $$2023-01-03$$)", "I2"), ("to_date($$2023-01-05$$)", "d2023-01-05"),
                    ("dateadd(day, 1, $$2023-01-31$$)", "t2023-02-01 00:00:00"), ("to_number($$12.5$$, 10, 1)", "D12.5"),
                    ]:
        cases.append({"tag": "dollar-quoted", "task": ("expr", (x, CONTEXTS)), "line": None, "x": x, "judge": ("fixed", want, None, None)})
    cases.append({"tag": "regexp_replace:backslash", "task": ("expr", ("regexp_replace($$a\\b$$, $$\\\\$$, '/')", ["select", "where"])), "line": None,
                  "x": "regexp_replace($$a\\b$$, $$\\\\$$, '/')", "judge": ("fixed", "Sa/b", "Sa\\b", "C10/regexp-pattern-backslash-unescaped-twice")})
    # ---- alias reuse in JOIN … ON ----------------------------------------------------------------------
    A = ("left join regions r on pfx = r.prefix", "a1")
    others = [("join customers c on o.cust_id = c.cust_id", "a2", True), ("join customers c on o.cust_id = c.cust_id and c.name is not null", "o", True),
              ("join customers c on (o.cust_id = c.cust_id)", "o", True), ("join customers c using (cust_id)", "n", True), ("cross join one x", "n", False),
              ("join one x on x.k = 1 and 1 = 1", "o", False), ("left join one y on (y.k = 1)", "o", False)]
    jlists = [[A]]
    for o1 in others:
        jlists += [[A, o1], [o1, A]]
        for o2 in others:
            if o1 is not o2 and not (o1[2] and o2[2]) and o1[0].split(" on ")[0].split()[-1] != o2[0].split(" on ")[0].split()[-1]:
                jlists += [[A, o1, o2], [o1, A, o2], [o1, o2, A]]
    rnd.shuffle(jlists)
    jlists = [[A]] + [[others[4], A], [others[1], A], [others[2], A], [others[3], A]] + jlists[: (24 if quick else len(jlists))]
    for jl in jlists:
        has_c = any(len(j) == 3 and j[2] for j in jl)
        proj = "o.id, substr(o.code, 1, 2) as pfx, r.region" + (", c.name" if has_c else "")
        body = f"select {proj} from orders o " + " ".join(j[0] for j in jl)
        want_rows = []
        for oid, cust, code in ORDERS:
            if has_c and cust not in CUSTOMERS:
                continue
            pfx = code[:2]
            row = [f"I{oid}", "S" + pfx, "S" + REGIONS[pfx] if pfx in REGIONS else "N"] + (["S" + CUSTOMERS[cust]] if has_c else [])
            want_rows.append(",".join(row))
        want = "|".join(want_rows)
        line = "rewrite\taliasjoin\t1\t" + enc_list([j[1] for j in jl])
        pos = [j[1] for j in jl].index("a1")
        for form, stmts in (("select", [body + " order by o.id"]), ("cte", [f"with q as ({body}) select * from q order by 1"]),
                            ("view", [f"create or replace view aj_{{uid}} as {body}", "select * from aj_{uid} order by 1"])):
            if form != "select" and quick and rnd.random() < 0.6:
                continue
            cases.append({"tag": f"alias_in_join:{len(jl)}joins:pos{pos}", "x": stmts[0] if form != "view" else "create view … as " + body, "task": ("query", stmts),
                          "line": line, "judge": ("aliasjoin", want, pos)})

    # ---- SAMPLE … SEED, IDENTIFIER(), ARRAY_AGG [WITHIN GROUP], DATEDIFF relations ---------------------------
    allnums = "|".join(f"I{n}" for n, _ in NUMS if n is not None)
    for sd in [0, 1, 42, 7] + [rnd.randint(0, 10**6) for _ in range(2 if quick else 20)]:
        for pct in (50, 30):
            q = f"select n from nums sample ({pct}) seed ({sd}) where n is not null order by n"
            cases.append({"tag": "sample", "x": q, "task": ("stmts", [q, q, q.replace("sample", "tablesample bernoulli")]), "line": None, "judge": ("sample", allnums)})
    for q, want in [("select count(*) from nums sample (100) seed (3)", f"I{len(NUMS)}"), ("select count(*) from nums sample (0) seed (3)", "I0"),
                    ("select count(*) from nums tablesample (100) seed (9)", f"I{len(NUMS)}")]:
        cases.append({"tag": "sample", "x": q, "task": ("query", [q]), "line": None, "judge": ("query_fixed", want)})
    for q, want in [("select count(*) from identifier('nums')", f"I{len(NUMS)}"), ("select count(*) from identifier('db1.s1.nums')", f"I{len(NUMS)}"),
                    ("select count(*) from identifier('NUMS') where identifier('n') = 3", "I1"), ("select identifier('g') from nums where identifier('n') = 10", "Sd"),
                    ("select max(identifier('n')) from identifier('s1.nums')", "I10"),
                    ("with c as (select identifier('n') as m from identifier('nums')) select count(m) from c", "I10")]:
        cases.append({"tag": "identifier", "x": q, "task": ("query", [q]), "line": None, "judge": ("query_fixed", want)})
    nn = [n for n, _ in NUMS if n is not None]
    js = lambda xs: "S" + json.dumps(xs, separators=(",", ":"))  # noqa: E731
    groups = sorted({g for _, g in NUMS})
    agg = [("select array_agg(n) within group (order by n) from nums", js(sorted(nn))), ("select array_agg(n) within group (order by n desc) from nums", js(sorted(nn, reverse=True))),
           ("select array_agg(g) within group (order by g desc, n) from nums where n is not null", js([g for n, g in sorted([x for x in NUMS if x[0] is not None], key=lambda x: (-ord(x[1]), x[0]))])),
           ("select array_agg(n) within group (order by n) from nums where n > 3 and n < 7", js([4, 5, 6])),
           ("select array_size(array_agg(n)) from nums", f"I{len(nn)}"),
           ("select g, array_agg(n) within group (order by n desc) from nums where n is not null group by g order by g",
            "|".join(f"S{g}," + js(sorted([n for n, h in NUMS if h == g and n is not None], reverse=True)) for g in groups if any(h == g and n is not None for n, h in NUMS))),
           ("select array_agg(n) within group (order by n) from nums where g = 'd'", js([10])),
           ("create or replace view agv_{uid} as select array_agg(n) within group (order by n desc) as a from nums;select a from agv_{uid}", js(sorted(nn, reverse=True)))]
    KEY_WG = "C10/array-agg-within-group-keeps-nulls"
    nulls = [None] * sum(1 for n, _ in NUMS if n is None)
    with_nulls = {agg[0][0]: js(sorted(nn) + nulls), agg[1][0]: js(nulls + sorted(nn, reverse=True)), agg[6][0]: js([10, None]), agg[7][0]: js(nulls + sorted(nn, reverse=True))}
    for q, want in agg:
        if q in with_nulls:
            cases.append({"tag": "array_agg", "x": q, "task": ("query", q.split(";")), "line": None, "judge": ("query_finding", want, with_nulls[q], KEY_WG)})
        else:
            cases.append({"tag": "array_agg", "x": q, "task": ("query", q.split(";")), "line": None, "judge": ("query_fixed", want)})
    cases.append({"tag": "array_agg:set", "x": "select array_agg(n) from nums", "task": ("query", ["select array_agg(n) from nums"]), "line": None, "judge": ("json_multiset", nn)})
    cases.append({"tag": "array_agg:empty", "x": "select array_agg(n) from nums where n > 100", "task": ("query", ["select array_agg(n) from nums where n > 100"]), "line": None,
                  "judge": ("query_finding", "S[]", "N", "C10/array-agg-empty-null")})
    trip = ["2022-12-31", "2023-01-01", "2023-01-31", "2023-02-01", "2023-03-31", "2023-04-01", "2024-02-29", "2025-01-01", "1969-12-31", "1970-01-01"]
    for _ in range(12 if quick else 120):
        a, b, c = (rnd.choice(trip) for _ in range(3))
        for unit in ("year", "quarter", "month"):
            q = (f"select datediff({unit}, '{a}'::date, '{c}'::date), datediff({unit}, '{a}'::date, '{b}'::date) + datediff({unit}, '{b}'::date, '{c}'::date), "
                 f"datediff({unit}, '{a}'::date, '{b}'::date), -datediff({unit}, '{b}'::date, '{a}'::date), datediff({unit}, '{a}'::date, '{a}'::date)")
            dac, dab = datediff_doc(unit, dt.date.fromisoformat(a), dt.date.fromisoformat(c)), datediff_doc(unit, dt.date.fromisoformat(a), dt.date.fromisoformat(b))
            cases.append({"tag": "datediff:relations", "x": q, "task": ("query", [q]), "line": None, "judge": ("query_fixed", f"I{dac},I{dac},I{dab},I{dab},I0")})

    for x, want in [("to_date('2023-01-05')", "d2023-01-05"), ("to_date('2024-02-29')", "d2024-02-29"), ("to_timestamp('2023-01-05 10:00:00')", "t2023-01-05 10:00:00"),
                    ("to_timestamp_ntz('2023-01-05')", "t2023-01-05 00:00:00"), ("to_date(null)", "N")]:
        cases.append({"tag": "to_date/to_timestamp", "task": ("expr", (x, ctx_pick(rnd, quick, k=1))), "line": None, "x": x, "judge": ("fixed", want, None, None)})
    return cases


# ------------------------------------------------------------------------------------------------
# judging
# ------------------------------------------------------------------------------------------------
def expected(case, rep):
    """(spec_obs, impl_obs, finding_key|None) from the model's reply and the transcribed semantics"""
    j = case["judge"]
    k = j[0]
    if k == "fixed":
        return j[1], j[2] if j[2] is not None else j[1], j[3]
    if k == "rx":
        subj, pat = j[1], j[2]
        params = dec_str(rep["impl_params"])
        sg = int(rep["spec_group"])
        if sg > re.compile(pat).groups:
            sg = 0      # documented: the `e` parameter without sub-expressions in the pattern extracts the whole match
        spec = rx_eval(subj, pat, j[3], int(rep["spec_from"]) - 1, sg, int(rep["spec_occ"]) - 1)
        start = max(int(rep["impl_slice"]) - 1, 0)
        idx1 = int(rep["impl_index"])
        impl = rx_eval(subj, pat, params, start, int(rep["impl_group"]), idx1 - 1) if idx1 >= 1 else None
        key = None if rep["finding"] == "-" else rep["finding"]
        return obs_cell(spec), obs_cell(impl), key
    if k == "tonum":
        fn, v, is_str = j[1], j[2], j[3]
        tryf = fn.startswith("try_")

        def val(out, rounding):
            if out == "NI":
                return "REJECTED"
            p, s = (int(t[1:]) for t in out[1:].split(","))
            q = dec_cast(v, is_str, p, s, rounding)
            if q is None:
                return "N" if tryf else "E:conv"
            return f"D{q}"
        spec = val(rep["spec"], ROUND_HALF_UP)
        impl = val(rep["impl"], ROUND_HALF_UP if is_str else ROUND_DOWN)
        key = "C10/to-number-numeric-truncates" if (not is_str and spec != impl) else None
        if is_str and rep["impl"] != "NI":
            # DuckDB checks the precision before rounding: '99.995' → DECIMAL(4,2) gives 100.00
            p, s = (int(t[1:]) for t in rep["impl"][1:].split(","))
            try:
                d = Decimal(v)
                up, down = d.quantize(Decimal(1).scaleb(-s), rounding=ROUND_HALF_UP), d.quantize(Decimal(1).scaleb(-s), rounding=ROUND_DOWN)
                if not fits(up, p, s) and fits(down, p, s):
                    impl, key = f"D{up}", "C10/to-number-round-overflow"
            except InvalidOperation:
                pass
        return spec, impl, key
    if k == "dateadd":
        unit, n, base = j[1], j[2], j[3]
        spec = as_type(dateadd_doc(unit, n, base), rep["spec"])
        if unit == "quarter":
            # sqlglot renders a quarter as 90 days
            impl = as_type(dateadd_doc("day", 90 * n, base), rep["impl"])
        else:
            impl = as_type(dateadd_doc(unit, n, base), rep["impl"])
        key = None if rep["finding"] == "-" else rep["finding"]
        return obs_cell(spec), obs_cell(impl), key
    if k == "rr":
        # rewritten: every match is replaced — must be the documented value; rejected: an error; untouched cannot happen on this tree
        out = rep["impl"]
        if out.startswith("rewritten"):
            return j[1], j[1], None
        return "REJECTED_OR:" + j[1], "REJECTED_OR:" + j[1], None
    if k == "tots":
        if rep["tzaware"] != "0":
            return j[1] + "+00:00", j[1] + "+00:00", None
        return j[1], j[1], None
    if k == "decdesc":
        return j[1], j[1], None
    if k == "eqnull":
        return "B" + rep["spec"], "B" + rep["impl"], None
    if k == "sha2":
        s, ln = j[1], j[2]
        h = hashlib.sha256(s.encode()).hexdigest()
        o = rep["impl"]
        if o == "hex256":
            return "S" + h, "S" + h, None
        if o == "bin256":
            return "b" + h, "b" + h, None
        return "REJECTED", "REJECTED", None
    if k == "model_text":
        key = None if rep["finding"] == "-" else rep["finding"]
        return "S" + dec_str(rep["spec"][1:]), "S" + dec_str(rep["impl"][1:]), key
    if k == "rejected":
        return "REJECTED", "REJECTED", None
    raise ValueError(k)


def described_type(case, rep, spec):
    """the documented result type as `cursor.description` shows it, or None when no type is expected (errors, rejections)"""
    k = case["judge"][0]
    if spec.startswith("E:") or spec.startswith("REJECTED"):
        return None
    if k == "tonum":
        out = rep["spec"]
        if out == "NI":
            return None
        p, s = (int(t[1:]) for t in out[1:].split(","))
        return f"desc:0,{p},{s}"           # FIXED, NUMBER(p, s)
    if k == "decdesc":
        return f"desc:0,{rep['precision']},{rep['scale']}"
    if k == "tots":
        return "desc:8,0,9" if rep["tzaware"] == "0" else "desc:7,0,9"   # TIMESTAMP_NTZ
    return None


def matches(want: str, real: str) -> bool:
    if want.startswith("TS:"):
        # the text of a TIMESTAMP_NTZ: the wall-clock value, an optional all-zero fraction, NO time zone suffix
        body, tail = want[3:], ""
        if body.endswith("Z"):
            body, tail = body[:-1], "Z"
        return re.fullmatch("S" + re.escape(body) + r"(\.0+|0*)" + re.escape(tail), real) is not None
    if want == "REJECTED":
        return real in REJECTED
    if want.startswith("REJECTED_OR:"):
        # a form fakesnow does not support: rejected, or answered with the documented value — never answered wrongly
        return real in REJECTED or real == want[len("REJECTED_OR:"):]
    return want == real


def judge(chk, case, real, rep):
    k = case["judge"][0]
    tag = case["tag"]
    cinfo = {"x": case["x"], "tag": tag, "line": case["line"]}
    if rep is not None and (rep.get("_raw") == "unsupported" or rep.get("_raw") == "bad-op"):
        chk.count("skipped_unsupported" if rep["_raw"] == "unsupported" else "skipped_bad_op")
        return
    if k in ("fixed", "rx", "rr", "tonum", "tots", "decdesc", "dateadd", "eqnull", "sha2", "model_text", "rejected"):
        spec, impl, key = expected(case, rep)
        for ctx, got in real.items():
            if ctx == "describe":
                want_desc = described_type(case, rep, spec)
                if want_desc is None:
                    continue
                chk.case((case["x"], ctx), nontrivial=True)
                chk.count(f"{tag.split(':')[0]}:describe")
                if got != want_desc and not (got.startswith("E:") and (spec.startswith("E:") or spec.startswith("REJECTED"))):
                    chk.violation(f"`select {case['x']}`: cursor.description reports (type_code, precision, scale) = {got[5:] if got.startswith('desc:') else got}, "
                                  f"the documented result type is {want_desc[5:]}", dict(cinfo, context=ctx),
                                  broken=f"C10 result type ({tag.split(':')[0]}: C10_decimal_type/C10_decimal_description/C10_to_timestamp_type)")
                continue
            if ctx == "insert_select" and spec.startswith("TS:") and "||" not in case["x"] and "upper" not in case["x"]:
                pass
            chk.case((case["x"], ctx), nontrivial=spec not in ("N", "REJECTED") and not spec.startswith("REJECTED_OR:"))
            chk.count(f"{tag.split(':')[0]}:{ctx}")
            c = dict(cinfo, context=ctx)
            if matches(spec, got):
                if key is None and impl != spec:
                    chk.violation(f"model inconsistency for {case['x']}: impl {impl} ≠ spec {spec} outside every finding region", c, broken="C10 model", failing_input=False)
                continue
            if key and matches(impl, got):
                chk.finding(key, f"`{case['x']}` in context {ctx}: got {got}, documented {spec}", c)
            else:
                chk.violation(f"`{case['x']}` in context `{ctx}`: fakesnow returned {got} but the documented result is {spec} "
                              f"(model of the code predicts {impl}; finding region: {key or '-'})", c,
                              broken=f"C10 correspondence ({tag.split(':')[0]}); C10_context for context {ctx}")
        return
    if k in ("aliasjoin", "query_fixed", "json_multiset", "query_finding"):
        got = real["query"]
        c = dict(cinfo, observed=got)
        chk.case((case["x"],), nontrivial=True)
        chk.count(tag)
        if k == "aliasjoin":
            _, want, pos = case["judge"]
            flags = dec_list(rep["impl"])
            if flags[pos] != "1" or flags.count("1") != 1:
                chk.violation(f"model: aliasInJoin flags {flags} for {case['line']}", c, broken="C10_alias_in_join", failing_input=False)
            if got != want:
                chk.violation(f"`{case['x']}` returned {got!r}; with the select alias `pfx` substituted in the ON clause the rows are {want!r}", c,
                              broken="C10_alias_in_join (correspondence: the join at position %d must be rewritten whatever the other joins are)" % pos)
        elif k == "query_fixed":
            if got != case["judge"][1]:
                chk.violation(f"`{case['x']}` returned {got!r}, documented {case['judge'][1]!r}", c, broken=f"C10 correspondence ({tag})")
        elif k == "json_multiset":
            ok = got.startswith("S")
            try:
                ok = ok and sorted(json.loads(got[1:])) == sorted(case["judge"][1])
            except (ValueError, TypeError):
                ok = False
            if not ok:
                chk.violation(f"`{case['x']}` returned {got!r}, documented an ARRAY of the non-NULL values {case['judge'][1]}", c, broken="C10_array_agg_partial (correspondence)")
        else:
            _, spec, impl, key = case["judge"]
            if got == spec:
                return
            if got == impl:
                chk.finding(key, f"`{case['x']}`: got {got}, documented {spec}", c)
            else:
                chk.violation(f"`{case['x']}`: got {got}, documented {spec}", c, broken=f"C10 correspondence ({tag})")
        return
    res = real["stmts"]
    c = dict(cinfo, observed=res)
    chk.case((case["x"],), nontrivial=True)
    chk.count(tag)
    if k == "stmts_exact":
        want = case["judge"][1]
        bad = [(i, w, g) for i, (w, g) in enumerate(zip(want, res)) if w is not None and w != g]
        if bad or len(res) != len(want):
            i, w, g = bad[0] if bad else (len(res), "…", "missing")
            chk.violation(f"`{case['x']}`: statement #{i + 1} `{case['task'][1][i] if i < len(case['task'][1]) else ''}` gave {g!r}, documented {w!r}; all results {res}", c,
                          broken=f"C10 correspondence ({tag})")
        return
    if k == "stmts_last":
        _, spec, impl, key = case["judge"]
        if res[-1] == spec:
            return
        if res[-1] == impl:
            chk.finding(key, f"`{case['x']}`: got {res[-1]}, documented {spec}", c)
        else:
            chk.violation(f"`{case['x']}`: got {res}, documented {spec}", c, broken="C10_equal_null (macro availability)")
    elif k == "values":
        n, want, sql = case["judge"][1:]
        names = [dec_str(t) for t in dec_list(rep["names"])] if rep["names"] != "-" else None
        if names != [f"COLUMN{i + 1}" for i in range(n)]:
            chk.violation(f"model valuesColumns {n} = {names}", c, broken="C10_values_names", failing_input=False)
        rows = res[0].split("|")
        if rows[0] != want:
            chk.violation(f"`{sql}` returned {res[0]!r}, documented: columns are named COLUMN1..COLUMN{n} → {want}", c, broken="C10_values_names (correspondence)")
    elif k == "sample":
        a, b, alt = res
        allrows = case["judge"][1].split("|")
        rows = a.split("|") if a else []
        if a != b or a != alt:
            chk.violation(f"`{case['x']}` run twice (and spelled TABLESAMPLE BERNOULLI) returned {a!r}, {b!r}, {alt!r}: SEED makes the sample deterministic", c,
                          broken="SAMPLE … SEED determinism (oracle)")
        elif any(r not in allrows for r in rows) or len(set(rows)) != len(rows):
            chk.violation(f"`{case['x']}` returned {a!r}: not a sub-multiset of the table", c, broken="SAMPLE … SEED (oracle)")
    elif k == "random_seeded":
        s = case["judge"][1]
        a, b, other = res
        ok_int = a.startswith("I") and -2**63 <= int(a[1:]) < 2**63
        if rep["indomain"] != "1":
            chk.violation(f"model: seed {s} outside setseed's domain", c, broken="C10_random_seed", failing_input=False)
        if not (ok_int and a == b):
            chk.violation(f"`select random({s})` twice returned {a} and {b}: documented a 64-bit integer that is the same for the same seed", c,
                          broken="C10_random_partial/C10_random_seed (correspondence)")
        elif other == a:
            chk.violation(f"random({s}) = random({s + 1}) = {a}: different seeds must be handed to the generator as different values", c, broken="C10_random_seed (injective)")
    elif k == "random_twice":
        flags = dec_list(rep["impl"])
        if res[0] == "E:binder" and flags == ["1", "0"]:
            chk.finding("C10/random-twice", f"`{case['x']}`: got {res[0]}, documented two 64-bit integers", c)
        elif not re.fullmatch(r"I-?\d+,I-?\d+", res[0]):
            chk.violation(f"`{case['x']}`: got {res[0]}", c, broken="C10_random_partial")
    elif k == "random_negative":
        if res[0] != res[1] and rep["seed"] == "-":
            chk.finding("C10/random-negative-seed", f"`select random(-5)` twice: {res[0]} then {res[1]} (the seed is ignored), documented: same value", c)
        elif res[0] != res[1] or not res[0].startswith("I"):
            chk.violation(f"`select random(-5)` twice: {res}", c, broken="C10_random_partial")
    elif k == "random_nested":
        if res[0] == "E:range":
            chk.finding("C10/random-nested-select", f"`{case['x']}`: got {res[0]}, documented a 64-bit integer", c)
        elif not (res[0].startswith("I") and res[0] == res[1]):
            chk.violation(f"`{case['x']}`: got {res}", c, broken="C10_random_partial (nested SELECT)")
    elif k == "random_int":
        if not (res[-1].startswith("I") and -2**63 <= int(res[-1][1:]) < 2**63):
            chk.violation(f"`{case['x']}`: got {res}", c, broken="C10_random_partial (view)")


def run(chk) -> None:
    chk.extra["host_timezone"] = set_host_timezone(chk.seed)
    cases = build(chk)
    # the committed witnesses (one per known finding) are judged first
    by_x = {c["x"]: c for c in cases}
    for f in sorted((common.CORPUS / "C10").glob("*.json")):
        w = json.loads(f.read_text())
        if w["x"] not in by_x:
            raise common.Infra(f"corpus witness {f.name} is not among the generated cases")
        c = by_x[w["x"]]
        if c["task"][0] == "expr":
            c = dict(c, task=("expr", (c["task"][1][0], ["select"])))
        judge(chk, c, _worker([c["task"]])[0], common.batch([c["line"]])[0] if c["line"] else None)
        chk.count("corpus")
    chk.rule = ("boundary-forced literal arguments per construct (positions/occurrences/groups around the match count and the string length; decimals at "
                "rounding midpoints, precision limits, unparsable; month ends, leap days, epoch and year boundaries × 8 units × 6 operand shapes; all NULL "
                "patterns; seeds at the int32 and setseed limits; every SHA2 length) × contexts {select list, WHERE, nested call, scalar subquery, CTE, view, "
                "CTAS, INSERT…SELECT}.  non-trivial = distinct (expression, context) whose documented result is a non-NULL value")
    nshards = 16
    tasks = [c["task"] for c in cases]
    res = common.shard_map(_worker, [tasks[i::nshards] for i in range(nshards)])
    reals = [None] * len(tasks)
    for i, r in enumerate(res):
        for j, v in enumerate(r):
            reals[i + j * nshards] = v
    with_line = [i for i, c in enumerate(cases) if c["line"]]
    replies = common.batch([cases[i]["line"] for i in with_line])
    rep_of = dict(zip(with_line, replies))
    for i, c in enumerate(cases):
        judge(chk, c, reals[i], rep_of.get(i))
    chk.extra["expressions"] = len(cases)
    chk.samples = [{"x": c["x"], "tag": c["tag"]} for c in cases[:: max(1, len(cases) // 8)]][:8]
    chk.trusted += [
        "the Snowflake documentation as transcribed in harness/props/c10.py (rx_eval, dec_cast, dateadd_doc, datediff_doc) and in Fs.Rewrite.*Spec — there is no Snowflake here",
        "DuckDB functions regexp_extract_all (RE2), string/decimal casts, date + interval, date_diff, sha256, setseed/random, IS NOT DISTINCT FROM; Python `re` agreeing with RE2 on the generated patterns",
        "sqlglot: Snowflake parser (positional slots of TO_NUMBER, unit alias normalisation), DuckDB generator (+1 on literal subscripts, QUARTER rendered as 90 days, SHA2(x, n) → SHAn)",
    ]
    chk.assumptions = ["REGEXP patterns without anchors/look-behind (searching from `position` = searching the substring)", "documents the oracle, not Snowflake itself"]


def replay(chk, case) -> None:
    if "duckdb" not in sys.modules:
        set_host_timezone(chk.seed)
    cases = [c for c in build(chk) if c["x"] == case["x"]]
    if not cases:
        raise common.Infra(f"case {case['x']} is not generated for this seed/tier; re-run with the seed recorded in the replay")
    c = cases[0]
    if c["task"][0] == "expr" and "context" in case:
        c = dict(c, task=("expr", (c["task"][1][0], [case["context"]])))
    real = _worker([c["task"]])[0]
    rep = common.batch([c["line"]])[0] if c["line"] else None
    judge(chk, c, real, rep)
