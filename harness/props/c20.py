"""C20 — patch() and the CLI switch the fake on and off cleanly.

Correspondence, part 1 (patch): every case is a short history of `with fakesnow.patch(extras): body` blocks over a
fixed little world of modules (an imported module with from-import aliases, a not-yet-imported module, a missing
module); before/inside/after each block the identity of every attribute of interest is observed through the
public API and compared with `Fs.Patch.patchRun fixed` (impl) and with the specification computed by the driver.
Part 2 (CLI): argv over the 13-token alphabet are pushed (a) through `fakesnow.cli.split` +
`fakesnow.cli.arg_parser().parse_args` and (b) end-to-end through `fakesnow.cli.main` with recording targets, and
compared with `Fs.Cli.split / parseArgs / main` and with the grammar specification.
"""
from __future__ import annotations

import contextlib
import io
import itertools
import json
import os
import random
import shutil
import sys
import tempfile

from lib import common
from lib.common import enc_list, enc_str

# ----------------------------------------------------------------------------------------------
# part 1: patch()
# ----------------------------------------------------------------------------------------------

LOADED, LAZY, MISSING, LOCAL, PKG = "c20_loaded_mod", "c20_lazy_mod", "c20_missing_mod", "c20_local_mod", "c20_pkg"
# abstract slot (module id, attribute id) -> python target string
SLOT_NAMES = {
    (0, 0): "snowflake.connector.connect", (1, 0): "snowflake.connector.pandas_tools.write_pandas",
    (2, 0): f"{LOADED}.connect", (2, 1): f"{LOADED}.write_pandas", (2, 2): f"{LOADED}.other", (2, 3): f"{LOADED}.zero",
    (2, 4): f"{LOADED}.umock", (2, 5): f"{LOADED}.sf_connect", (2, 6): f"{LOADED}.sf_write_pandas", (2, 9): f"{LOADED}.nope",
    (3, 0): f"{LAZY}.connect", (3, 1): f"{LAZY}.write_pandas", (3, 2): f"{LAZY}.other", (3, 3): f"{LAZY}.zero", (3, 4): f"{LAZY}.sf_connect",
    (3, 9): f"{LAZY}.nope",
    (4, 0): f"{LOCAL}.connect", (4, 1): f"{LOCAL}.write_pandas",
    (5, 0): f"{PKG}.sub.connect", (5, 1): f"{PKG}.sub.write_pandas",
    (9, 0): f"{MISSING}.x",
}
KINDS = [(0, 0), (2, 0), (2, 1), (2, 2), (2, 3), (2, 4), (2, 5), (2, 6), (2, 9), (3, 0), (3, 1), (3, 2), (3, 4), (3, 9), (4, 0), (4, 1), (5, 0), (5, 1), (9, 0)]
KIND_LABEL = {(0, 0): "standard(dup)", (2, 0): "from-import connect", (2, 1): "from-import write_pandas", (2, 2): "non-snowflake fn",
              (2, 3): "falsy attr", (2, 4): "already a MagicMock", (2, 5): "aliased from-import connect", (2, 6): "aliased from-import write_pandas",
              (2, 9): "missing attr", (3, 0): "lazy module connect", (3, 1): "lazy module write_pandas", (3, 2): "lazy module non-snowflake",
              (3, 4): "lazy module aliased connect", (3, 9): "lazy module missing attr",
              (5, 0): "lazy dotted submodule connect", (5, 1): "lazy dotted submodule write_pandas",
              (4, 0): "non-snowflake fn named connect", (4, 1): "non-snowflake fn named write_pandas", (9, 0): "missing module"}
# second block of the re-entry pairs: one representative per way a target can behave
PAIR_SECOND = [(), ((2, 0),), ((2, 5),), ((3, 0),), ((5, 0),), ((4, 0),), ((2, 9),), ((9, 0),)]
OBSERVED = [(0, 0), (1, 0), (2, 0), (2, 1), (2, 2), (2, 3), (2, 4), (2, 5), (2, 6), (3, 0), (3, 1), (3, 2), (3, 3), (3, 4), (4, 0), (4, 1), (5, 0), (5, 1)]
ENV0 = "0.0=Rc;1.0=Rw;2.0=Rc;2.1=Rw;2.2=O1;2.3=F;2.4=U;2.5=Rc;2.6=Rw;4.0=O3;4.1=O4"
LOADED0 = "0;1;2;4"
IMPORTABLE0 = "3:0=Sc,1=Sw,2=O2,3=F,4=Sc;5:0=Sc,1=Sw"

LOADED_SRC = """from unittest.mock import MagicMock
from snowflake.connector import connect
from snowflake.connector import connect as sf_connect
from snowflake.connector.pandas_tools import write_pandas
from snowflake.connector.pandas_tools import write_pandas as sf_write_pandas
def other(): pass
zero = 0
umock = MagicMock(name="user")
"""
LAZY_SRC = """from snowflake.connector import connect
from snowflake.connector import connect as sf_connect
from snowflake.connector.pandas_tools import write_pandas
def other(): pass
zero = 0
"""
# functions that merely share their names with the snowflake ones
LOCAL_SRC = """def connect(*a, **k): return "local connect"
def write_pandas(*a, **k): return "local write_pandas"
"""


class _Targets(__import__("collections").abc.Sequence):
    """a Sequence[str] that is neither list nor tuple (extra_targets: str | Sequence[str])"""

    def __init__(self, items):
        self._items = list(items)

    def __getitem__(self, i):
        return self._items[i]

    def __len__(self):
        return len(self._items)


FORMS = ["list", "tuple", "seq", "str"]


class _Boom(Exception):
    pass


class _PatchWorld:
    """the real counterpart of the abstract world: module files in a temp dir, originals remembered for resetting"""

    def __init__(self) -> None:
        import importlib
        import snowflake.connector
        import snowflake.connector.pandas_tools as pt
        self.dir = tempfile.mkdtemp(prefix="c20mods")
        with open(os.path.join(self.dir, LOADED + ".py"), "w") as f:
            f.write(LOADED_SRC)
        with open(os.path.join(self.dir, LAZY + ".py"), "w") as f:
            f.write(LAZY_SRC)
        with open(os.path.join(self.dir, LOCAL + ".py"), "w") as f:
            f.write(LOCAL_SRC)
        # a scratch package whose submodule `sub` (dotted target `c20_pkg.sub.connect`) is not imported yet
        os.mkdir(os.path.join(self.dir, PKG))
        with open(os.path.join(self.dir, PKG, "__init__.py"), "w") as f:
            f.write("")
        with open(os.path.join(self.dir, PKG, "sub.py"), "w") as f:
            f.write(LAZY_SRC)
        sys.path.insert(0, self.dir)
        sys.dont_write_bytecode = True
        self.sc, self.pt = snowflake.connector, pt
        self.connect, self.write_pandas = snowflake.connector.connect, pt.write_pandas
        from unittest.mock import MagicMock
        if isinstance(self.connect, MagicMock):
            raise common.Infra("snowflake.connector.connect is already a mock when the harness starts")
        self.loaded = importlib.import_module(LOADED)
        self.loaded_attrs = {k: getattr(self.loaded, k) for k in ("connect", "write_pandas", "other", "zero", "umock", "sf_connect", "sf_write_pandas")}
        self.local = importlib.import_module(LOCAL)
        self.local_attrs = {k: getattr(self.local, k) for k in ("connect", "write_pandas")}

    def reset(self) -> None:
        self.sc.connect = self.connect
        self.pt.write_pandas = self.write_pandas
        for k, v in self.loaded_attrs.items():
            setattr(self.loaded, k, v)
        for k, v in self.local_attrs.items():
            setattr(self.local, k, v)
        sys.modules.pop(LAZY, None)
        sys.modules.pop(PKG + ".sub", None)
        sys.modules.pop(PKG, None)

    def code(self, slot) -> str:
        from unittest.mock import MagicMock
        modname, _, attr = SLOT_NAMES[slot].rpartition(".")
        mod = sys.modules.get(modname)
        if mod is None:
            return "N"
        if attr not in mod.__dict__:
            return "X"
        v = mod.__dict__[attr]
        if v is self.connect:
            return "Rc"
        if v is self.write_pandas:
            return "Rw"
        if v is self.loaded_attrs["umock"]:
            return "U"
        if isinstance(v, MagicMock):
            se = getattr(v, "side_effect", None)
            return {"connect": "Mc", "write_pandas": "Mw"}.get(getattr(se, "__name__", ""), "M?")
        return "O" if v else "F"

    def observe(self) -> str:
        return ",".join(self.code(s) for s in OBSERVED)

    def close(self) -> None:
        self.reset()
        sys.path.remove(self.dir)
        sys.modules.pop(LOADED, None)
        sys.modules.pop(LOCAL, None)
        shutil.rmtree(self.dir, ignore_errors=True)


def _conn_state(conn) -> str:
    try:
        conn.cursor().execute("select 1").fetchall()
        return "open"
    except Exception:
        return "closed"


EXIT_LABEL = {"n": "ends", "r": "raises an Exception", "b": "raises a BaseException (not an Exception)", "g": "is in a generator that gets closed"}


class _BaseBoom(BaseException):
    """a BaseException that is not an Exception (like pytest's skip / fail outcomes)"""


# what the body raises for exit kind "b", cycling
BASE_EXCS = [_BaseBoom, KeyboardInterrupt, SystemExit]


def _real_patch_case(pw: _PatchWorld, case) -> list[dict]:
    """case = {"runs": [{"extras": [[m,a],…], "exit": "n"|"r"|"b"|"g", "nested": None|[[m,a],…], "form": "list"|"tuple"|"seq"|"str"}]}
    exit kinds: n = body ends, r = body raises an Exception, b = body raises a BaseException that is not an Exception (cycling
    through a custom one, KeyboardInterrupt, SystemExit), g = the block sits in a generator that is closed (GeneratorExit)."""
    import fakesnow
    pw.reset()
    out = []
    for k, run in enumerate(case["runs"]):
        names = [SLOT_NAMES[tuple(s)] for s in run["extras"]]
        form = run.get("form", "list")
        arg = {"list": names, "tuple": tuple(names), "seq": _Targets(names), "str": names[0] if len(names) == 1 else names}[form]
        rec = {"inside": "-", "nested": "-", "nested_unchanged": "-", "conn": "-"}
        held = {"conn": None}
        base_exc = BASE_EXCS[(len(names) + k + len(case["runs"])) % len(BASE_EXCS)]

        def body():
            rec["inside"] = pw.observe()
            held["conn"] = pw.sc.connect()
            if run["nested"] is not None:
                before = pw.observe()
                try:
                    with fakesnow.patch([SLOT_NAMES[tuple(s)] for s in run["nested"]]):
                        rec["nested"] = "entered"
                except AssertionError as e:
                    rec["nested"] = "refused" if "already patched" in str(e) else f"AssertionError:{e}"
                except BaseException as e:  # noqa: BLE001
                    rec["nested"] = f"{type(e).__name__}"
                rec["nested_unchanged"] = "1" if (pw.observe() == before and _conn_state(held["conn"]) == "open") else "0"

        def in_generator():
            with fakesnow.patch(arg):
                body()
                yield

        try:
            if run["exit"] == "g":
                g = in_generator()
                next(g)
                g.close()          # GeneratorExit is thrown at the yield inside the with block
                rec["outcome"] = "bodyRaised"
            else:
                with fakesnow.patch(arg):
                    body()
                    if run["exit"] == "r":
                        raise _Boom()
                    if run["exit"] == "b":
                        raise base_exc()
                rec["outcome"] = "completed"
        except _Boom:
            rec["outcome"] = "bodyRaised"
        except ModuleNotFoundError:
            rec["outcome"] = "setupFailed:noModule"
        except AssertionError as e:
            rec["outcome"] = "refused" if "already patched" in str(e) else "setupFailed:assert"
        except BaseException as e:  # noqa: BLE001
            if run["exit"] == "b" and type(e) is base_exc and rec["inside"] != "-":
                rec["outcome"] = "bodyRaised"
            else:
                rec["outcome"] = f"X:{type(e).__name__}:{e}"[:200]
        rec["after"] = pw.observe()
        if held["conn"] is not None:
            rec["conn"] = _conn_state(held["conn"])
        out.append(rec)
    pw.reset()
    return out


def _patch_line(case) -> str:
    runs = []
    for r in case["runs"]:
        ex = ",".join(f"{m}.{a}" for m, a in r["extras"]) or "e"
        ne = "-" if r["nested"] is None else (",".join(f"{m}.{a}" for m, a in r["nested"]) or "e")
        runs.append(f"{ex}|{r['exit']}|{ne}")
    slots = ",".join(f"{m}.{a}" for m, a in OBSERVED)
    return "\t".join(["patch", "run", ENV0, LOADED0, IMPORTABLE0, slots, enc_list(runs)])


def _patch_cases(chk) -> list[dict]:
    rnd = random.Random(chk.seed * 7919 + 1)
    cases = []

    counter = itertools.count()

    def run(extras, exit_="n", nested=None, form=None):
        # extra_targets: str | Sequence[str] — the container type cycles through list / tuple / other Sequence / bare str
        if form is None:
            form = FORMS[next(counter) % (4 if len(extras) == 1 else 3)]
        return {"extras": [list(s) for s in extras], "exit": exit_, "nested": None if nested is None else [list(s) for s in nested], "form": form}

    maxlen = 2 if chk.tier == "quick" else 3
    # exit kinds: n = body ends, r = Exception, b = BaseException (not an Exception), g = enclosing generator closed
    abnormal = itertools.cycle("rbg")
    for L in range(0, maxlen + 1):
        for ex in itertools.product(KINDS, repeat=L):
            if L <= 1:     # every exit kind × every container type for the empty and the one-element lists
                for x in "nrbg":
                    for f in (FORMS if L == 1 else FORMS[:3]):
                        cases.append({"runs": [run(ex, x, form=f)]})
            else:          # the normal exit and one abnormal exit kind (cycling) for the longer lists
                cases.append({"runs": [run(ex, "n")]})
                cases.append({"runs": [run(ex, next(abnormal))]})
    if chk.tier == "quick":
        for _ in range(100):
            cases.append({"runs": [run([rnd.choice(KINDS) for _ in range(3)], rnd.choice("nrbg"))]})
    # re-entry after every way of leaving: all pairs (first: ≤1 extra × exit) then (second: a representative of each behaviour)
    singles = [()] + [(k,) for k in KINDS]
    for a in singles:
        for x in "nrbg":
            for b in (PAIR_SECOND if x in "nr" else PAIR_SECOND[:4]):
                cases.append({"runs": [run(a, x), run(b, "n")]})
    # nesting
    for a in singles:
        for n in ([], [(2, 0)], [(9, 0)], [(3, 0)]):
            cases.append({"runs": [run(a, "n", nested=n), run(a, "n")]})
    # random histories
    for _ in range(180 if chk.tier == "quick" else 3000):
        runs = []
        for _ in range(rnd.randint(2, 4)):
            ex = [rnd.choice(KINDS) for _ in range(rnd.choice([0, 1, 1, 2, 2, 3]))]
            runs.append(run(ex, rnd.choice("nnrbg"), nested=rnd.choice([None, None, None, [], [(2, 1)]])))
        cases.append({"runs": runs})
    return cases


def _patch_worker(shard):
    pw = _PatchWorld()
    try:
        return [_real_patch_case(pw, c) for c in shard]
    finally:
        pw.close()


def _model_outcome_class(o: str) -> str:
    return "setupFailed:assert" if o in ("setupFailed:noAttr", "setupFailed:notSnowflake") else o


def _check_patch(chk, case, real, reply) -> None:
    impl = [r.split("|") for r in common.dec_list(reply["impl"])]
    spec = [r.split("|") for r in common.dec_list(reply["spec"])]
    shipped = [r.split("|") for r in common.dec_list(reply.get("shipped", "[]"))]
    label = " ; ".join(
        f"patch({r.get('form', 'list')} [{', '.join(SLOT_NAMES[tuple(s)] for s in r['extras'])}]) body {EXIT_LABEL[r['exit']]}"
        + ("" if r["nested"] is None else f" nested patch([{', '.join(SLOT_NAMES[tuple(s)] for s in r['nested'])}])") for r in case["runs"])
    fp = json.dumps(case["runs"], sort_keys=True)
    nontrivial = any(r["extras"] or r["nested"] is not None for r in case["runs"])
    chk.case(("patch", fp), nontrivial=nontrivial)
    names = ",".join(SLOT_NAMES[s].replace("snowflake.connector.", "sc.") for s in OBSERVED)
    for i, (run, rr, mi, ms) in enumerate(zip(case["runs"], real, impl, spec)):
        chk.count("patch-outcome:" + rr["outcome"].split(":")[0])
        for s in run["extras"]:
            chk.count("patch-target:" + KIND_LABEL[tuple(s)])
        s_out, s_in, s_after, s_nest, s_nunch = ms
        i_out, i_in, i_after, i_nest, i_nunch = mi
        bad = None
        ro = rr["outcome"]
        if (ro.split(":")[0] != s_out.split(":")[0]):
            bad = f"outcome {ro!r}, required {s_out!r}"
        elif rr["after"] != s_after:
            bad = f"after the block the attributes [{names}] are [{rr['after']}], required [{s_after}] (R=original, M=fakesnow mock left behind)"
        elif s_in != "-" and rr["inside"] != s_in:
            bad = f"inside the block the attributes [{names}] are [{rr['inside']}], required [{s_in}]"
        elif s_nest != "-" and (rr["nested"] != "refused" or rr["nested_unchanged"] != "1"):
            bad = f"nested patch(): {rr['nested']!r}, environment/connection unchanged={rr['nested_unchanged']}, required refused and unchanged"
        elif rr["conn"] == "open":
            bad = "a connection made inside the block is still usable after the block (instance connection not closed)"
        if bad:
            like = ""
            if i < len(shipped) and [_model_outcome_class(shipped[i][0]), shipped[i][1], shipped[i][2]] == [ro, rr["inside"], rr["after"]]:
                like = " [behaves like the code before the C20 repairs]"
            chk.violation(f"block #{i + 1} of: {label}: {bad}{like}", {"kind": "patch", "case": case},
                          broken="C20_restore/C20_inside/C20_reenter/C20_nested_refused (correspondence with Fs.Patch.patchRun)")
            return
        # real = spec; the model of the code must agree too (exception class included)
        if [_model_outcome_class(i_out), i_in, i_after] != [ro, rr["inside"], rr["after"]] or \
                (i_nest != "-" and (i_nest, i_nunch) != (rr["nested"], rr["nested_unchanged"])):
            chk.violation(f"block #{i + 1} of: {label}: real behaviour ({ro}, inside [{rr['inside']}], after [{rr['after']}]) satisfies the "
                          f"specification but differs from the model of the code ({i_out}, [{i_in}], [{i_after}])",
                          {"kind": "patch", "case": case}, broken="correspondence Fs.Patch.patchRun", failing_input=False)
            return


# ----------------------------------------------------------------------------------------------
# part 2: the command line
# ----------------------------------------------------------------------------------------------

ALPHA = ["-d", "--db_path", "--db_path=p", "-dp", "-m", "--module", "--module=m", "-mm", "p", "s.py", "x", "-v", "--"]
ADVERSARIAL = ["-h", "--help", "-", "", "-5", "-1.5", "-.5", "-5.", "--db", "--db=p", "--mod=m", "--=x", "-d=p", "-hd", "-hx", "-hdp", "-h=",
               "--help=x", "--db_path=", "--module=", "-m=", "a b", "-a b", "--d", "--m", "--h", "-dd", "-md", "--db_path=--module",
               "-d-m", "=", "-=", "--module=-m", "-mpytest", "--modul", "--db_pat=p", "-x=y", "--x=y"]

REC_SRC = """import json, sys
import snowflake.connector
from unittest.mock import MagicMock
with open({out!r}, "w") as f:
    json.dump({{"argv": sys.argv, "name": __name__, "patched": isinstance(snowflake.connector.connect, MagicMock), "who": {who!r}}}, f)
snowflake.connector.connect(database="d1").close()
"""


class _CliWorld:
    """a temp cwd with recording targets for every name of the alphabet: scripts `s.py`, `x`, directory `p` (also the
    db_path) with `__main__.py`; modules `m`, `x`, `p` (package main) and `s.py` (module `py` of package `s`)"""

    def __init__(self) -> None:
        self.dir = tempfile.mkdtemp(prefix="c20cli")
        self.rec = os.path.join(self.dir, "rec.json")
        self.old_cwd = os.getcwd()
        os.chdir(self.dir)
        sys.dont_write_bytecode = True
        os.mkdir("p")
        os.mkdir("s")
        for path, who in [("s.py", "script:s.py"), ("x", "script:x"), ("p/__main__.py", "p"), ("m.py", "module:m"), ("x.py", "module:x"),
                          ("s/py.py", "module:s.py")]:
            with open(path, "w") as f:
                f.write(REC_SRC.format(out=self.rec, who=who))
        with open("s/__init__.py", "w") as f:
            f.write("")
        import snowflake.connector
        self.sc = snowflake.connector
        self.connect = snowflake.connector.connect

    def run_main(self, args: list[str]) -> dict:
        from unittest.mock import MagicMock
        import fakesnow.cli
        argv0, path0 = list(sys.argv), list(sys.path)
        mods0 = set(sys.modules)
        if os.path.exists(self.rec):
            os.remove(self.rec)
        res: dict = {}
        try:
            with contextlib.redirect_stdout(io.StringIO()) as so, contextlib.redirect_stderr(io.StringIO()):
                try:
                    rc = fakesnow.cli.main(list(args))
                    res["exit"] = f"return:{rc}"
                    if rc == 42 and "usage" not in so.getvalue():
                        res["exit"] = "return:42:no-usage-text"
                except SystemExit as e:
                    res["exit"] = f"SystemExit:{e.code}"
                except BaseException as e:  # noqa: BLE001
                    res["exit"] = f"raised:{type(e).__name__}"
            res["argv_after"] = list(sys.argv)
            res["path_inserted"] = len(sys.path) > len(path0) and sys.path[0] == ""
            res["restored"] = not isinstance(self.sc.connect, MagicMock)
            res["rec"] = json.load(open(self.rec)) if os.path.exists(self.rec) else None
            res["dbfiles"] = sorted(f for f in os.listdir("p") if f.endswith(".db"))
        finally:
            sys.argv[:] = argv0
            sys.path[:] = path0
            self.sc.connect = self.connect
            for m in set(sys.modules) - mods0:
                if m in ("m", "x", "p", "s", "s.py") or m.startswith(("s.", "p.")):
                    sys.modules.pop(m, None)
            for f in os.listdir("p"):
                if f != "__main__.py":
                    p = os.path.join("p", f)
                    shutil.rmtree(p, ignore_errors=True) if os.path.isdir(p) else os.remove(p)
        return res

    def close(self) -> None:
        os.chdir(self.old_cwd)
        shutil.rmtree(self.dir, ignore_errors=True)


def _pure_real(args) -> dict:
    import fakesnow.cli as cli
    fs, targs = cli.split(list(args))
    try:
        with contextlib.redirect_stderr(io.StringIO()), contextlib.redirect_stdout(io.StringIO()):
            ns = cli.arg_parser().parse_args(list(fs))
        pr = "ok," + ",".join("-" if v is None else enc_str(v) for v in (ns.db_path, ns.module, ns.path))
    except SystemExit as e:
        pr = "error" if e.code == 2 else "help" if e.code in (0, None) else f"exit{e.code}"
    except BaseException as e:  # noqa: BLE001
        pr = f"X:{type(e).__name__}"
    return {"split": ",".join(enc_str(a) for a in fs) + "|" + ",".join(enc_str(a) for a in targs), "parse": pr}


def _pure_worker(shard):
    return [_pure_real(a) for a in shard]


def _e2e_worker(shard):
    cw = _CliWorld()
    try:
        return [cw.run_main(list(a)) for a in shard]
    finally:
        cw.close()


def _cli_line(args) -> str:
    return "cli\tmain\t" + enc_list([enc_str(a) for a in args])


def _dec_outcome(s: str):
    """model outcome -> (kind, db, argv)"""
    if s in ("usage", "exit2", "exit0", "-"):
        return (s, None, None)
    parts = s.split(",")
    return (parts[0], common.dec_opt(parts[1]), [common.dec_str(p) for p in parts[2:]])


def _grammar_sentences(rnd, n) -> list[tuple]:
    out = []
    vals = ["p", "x", "s.py", "q/r"]
    targ_pool = ALPHA + ["-h", "--help", "y", "", "--x=1", "-m", "-d", "a b"]
    for _ in range(n):
        toks = []
        for _ in range(rnd.choice([0, 0, 1, 1, 2, 3])):
            form = rnd.randrange(4)
            v = rnd.choice(vals)
            toks += [["-d", v], ["--db_path", v], [f"--db_path={v}"], [f"-d{v}"]][form]
        t = rnd.randrange(6)
        name = rnd.choice(["m", "x"]) if t else rnd.choice(["s.py", "x"])
        toks += [[name], ["-m", name], ["--module", name], [f"--module={name}"], [f"-m{name}"], [f"-m{name}"]][t]
        toks += [rnd.choice(targ_pool) for _ in range(rnd.randint(0, 5))]
        out.append(tuple(toks))
    return out


def _cli_cases(chk):
    rnd = random.Random(chk.seed * 104729 + 2)
    pure = []
    n_pure = 4 if chk.tier == "quick" else 5
    for L in range(0, n_pure + 1):
        pure += list(itertools.product(ALPHA, repeat=L))
    for L in (1, 2):
        pure += list(itertools.product(ALPHA + ADVERSARIAL, repeat=L))
    for _ in range(2000 if chk.tier == "quick" else 40000):
        pure.append(tuple(rnd.choice(ALPHA + ADVERSARIAL) for _ in range(rnd.randint(3, 7))))
    pure += _grammar_sentences(rnd, 1000 if chk.tier == "quick" else 20000)
    e2e = []
    n_e2e = 3 if chk.tier == "quick" else 4
    for L in range(0, n_e2e + 1):
        e2e += list(itertools.product(ALPHA, repeat=L))
    e2e += _grammar_sentences(rnd, 250 if chk.tier == "quick" else 4000)
    # outside the alphabet: abbreviated / odd option spellings in front of runnable targets (argparse sets module *and* path for some)
    odd = ["--mod=m", "--m=x", "--modul", "--db=p", "--d", "-d=p", "-m=m", "--db_path=", "--module=", "-", "-h", "--help", "-hdp", "--=x"]
    for o in odd:
        for rest in itertools.product(["m", "x", "s.py", "p"], ["x", "-m", "s.py"]):
            e2e.append((o, *rest))
        e2e.append((o,))
        for t in ALPHA:
            e2e.append((o, t))
            e2e.append((t, o))
    chk.extra["cli_exhaustive"] = (f"all argv of length ≤{n_pure} over the 13-token alphabet through split+parse_args ({sum(13 ** i for i in range(n_pure + 1))}); "
                                   f"all argv of length ≤{n_e2e} end-to-end through cli.main ({sum(13 ** i for i in range(n_e2e + 1))})")
    return pure, e2e


def _check_pure(chk, args, real, reply) -> None:
    chk.case(("pure", args), nontrivial=len(args) > 1)
    chk.count("cli-pure:" + reply["parse"].split(",")[0])
    if real["split"] != reply["split"] or real["parse"] != reply["parse"]:
        # model of split/argparse differs from the code: look at the end-to-end meaning
        spec, impl = reply["spec"], reply["impl"]
        what = (f"argv {list(args)}: cli.split/parse_args give split={_show_split(real['split'])} parse={_show_parse(real['parse'])}, "
                f"the model of the code gives split={_show_split(reply['split'])} parse={_show_parse(reply['parse'])}")
        if spec != "-":
            # a sentence of the grammar: does the real code still hand the target its arguments?
            k, db, argv = _dec_outcome(spec)
            real_out = _real_outcome_from_pure(real)
            if real_out != (k, db, argv):
                chk.violation(what + f"; this argv is a sentence of the grammar and the target must run as {k} with sys.argv={argv}, db_path={db!r} "
                              f"but the code would run {real_out}" + (" [behaves like the code before the repair]" if real["split"] == reply["splitold"] else ""),
                              {"kind": "cli-pure", "args": list(args)}, broken="C20_argv (correspondence with Fs.Cli.main)")
                return
        chk.violation(what + (" [like the code before the repair]" if real["split"] == reply["splitold"] else ""),
                      {"kind": "cli-pure", "args": list(args)}, broken="correspondence Fs.Cli.split/parseArgs", failing_input=False)


def _show_split(s: str) -> str:
    a, _, b = s.partition("|")
    dec = lambda part: [common.dec_str(t) for t in part.split(",")] if part else []  # noqa: E731
    return f"({dec(a)}, {dec(b)})"


def _show_parse(s: str) -> str:
    if not s.startswith("ok,"):
        return s
    db, mod, path = [common.dec_opt(x) for x in s.split(",")[1:]]
    return f"Namespace(db_path={db!r}, module={mod!r}, path={path!r})"


def _real_outcome_from_pure(real):
    """what cli.main would do with the observed split / parse results"""
    if not real["parse"].startswith("ok,"):
        return ({"error": "exit2", "help": "exit0"}.get(real["parse"], real["parse"]), None, None)
    db, mod, path = [common.dec_opt(x) for x in real["parse"].split(",")[1:]]
    targs_part = real["split"].partition("|")[2]
    targs = [common.dec_str(t) for t in targs_part.split(",")] if targs_part else []
    if mod:
        return ("M", db, [mod, *targs])
    if path:
        return ("P", db, [path, *targs])
    return ("usage", None, None)


RUNNABLE_M = {"m", "x", "p", "s.py"}
RUNNABLE_P = {"s.py", "x", "p"}


def _check_e2e(chk, args, real, reply) -> None:
    case = {"kind": "cli-main", "args": list(args)}
    spec = _dec_outcome(reply["spec"])
    impl = _dec_outcome(reply["impl"])
    chk.case(("e2e", args), nontrivial=len(args) > 1)
    chk.count("cli-main:" + impl[0])
    if spec[0] != "-":
        chk.count("cli-main:in-grammar")

    def differs(expect) -> str | None:
        kind, db, argv = expect
        if not real["restored"]:
            return "snowflake.connector.connect is still patched after cli.main returned"
        if kind == "exit2":
            return None if real["exit"] == "SystemExit:2" and real["rec"] is None else f"expected an argparse error (exit 2), got {real['exit']} rec={real['rec']}"
        if kind == "exit0":
            return None if real["exit"] == "SystemExit:0" and real["rec"] is None else f"expected --help (exit 0), got {real['exit']} rec={real['rec']}"
        if kind == "usage":
            return None if real["exit"] == "return:42" and real["rec"] is None else f"expected usage + return 42, got {real['exit']} rec={real['rec']}"
        # a target run
        if real["argv_after"] != argv:
            return f"the target was handed sys.argv={real['argv_after']}, required {argv}"
        if real["path_inserted"] != (kind == "M"):
            return f"target run as {'module' if real['path_inserted'] else 'path'}, required {'module' if kind == 'M' else 'path'}"
        runnable = argv[0] in (RUNNABLE_M if kind == "M" else RUNNABLE_P)
        if runnable:
            rec = real["rec"]
            if rec is None:
                return f"the target {argv[0]!r} did not run ({real['exit']})"
            # run_module(alter_sys=True) puts the module's file name into sys.argv[0] while the module runs (like python -m)
            seen = rec["argv"] if kind == "P" else [argv[0], *rec["argv"][1:]]
            if seen != argv or rec["name"] != "__main__" or not rec["patched"]:
                return f"the target saw sys.argv={rec['argv']} __name__={rec['name']} patched={rec['patched']}, required sys.argv={argv}, __main__, patched"
            if db in (None, "p"):
                want = ["D1.db"] if db == "p" else []
                got = [f for f in real["dbfiles"] if f == "D1.db"]
                if got != want or real["exit"] != "return:0":
                    return f"db_path={db!r}: database files in p/ {real['dbfiles']}, exit {real['exit']}; required {want} and return 0"
        elif real["rec"] is not None:
            return f"unexpected target ran: {real['rec']}"
        return None

    d_impl = differs(impl)
    if spec[0] != "-":
        d_spec = differs(spec)
        if d_spec:
            like = " [behaves like the code before the repair]" if differs(_dec_outcome(reply["old"])) is None else ""
            chk.violation(f"fakesnow {' '.join(map(repr, args))}: {d_spec}{like}", case, broken="C20_argv (correspondence with Fs.Cli.main)")
            return
    if d_impl:
        chk.violation(f"fakesnow {' '.join(map(repr, args))}: real cli.main differs from the model of the code: {d_impl}", case,
                      broken="correspondence Fs.Cli.main", failing_input=False)


# ----------------------------------------------------------------------------------------------

def run(chk) -> None:
    chk.rule = ("patch: every list of ≤2 (quick) / ≤3 (thorough) extra targets over 19 target kinds (standard duplicate, from-import aliases, "
                "aliased from-imports, non-snowflake functions incl. ones named connect/write_pandas, falsy/missing attribute, already a MagicMock, lazily imported module ×5, not-yet-imported dotted submodule of a package ×2, missing module; extra_targets given as list / tuple / other Sequence / str) × exit kind (body ends / raises an Exception / raises a BaseException / enclosing generator closed); all "
                "pairs of blocks (re-entry after every way of leaving); nested patch(); random histories of 2-4 blocks.  cli: exhaustive argv over "
                "the 13-token alphabet (pure ≤4/5 tokens, end-to-end ≤3/4 tokens), adversarial tokens, random grammar sentences with up to 5 "
                "target args.  non-trivial = distinct case with ≥1 extra target / nested block, or argv of ≥2 tokens")
    pcases = _patch_cases(chk)
    pure, e2e = _cli_cases(chk)
    # real code in workers
    import time
    t0 = time.time()
    pshards = common.chunks(pcases, 16)
    preal = common.shard_map(_patch_worker, pshards)
    t1 = time.time()
    eshards = common.chunks(e2e, 16)
    ereal = common.shard_map(_e2e_worker, eshards)
    t2 = time.time()
    ushards = common.chunks(pure, 16)
    ureal = common.shard_map(_pure_worker, ushards)
    t3 = time.time()
    chk.extra["phase_wall_s"] = {"patch_real": round(t1 - t0, 1), "cli_main_real": round(t2 - t1, 1), "cli_pure_real": round(t3 - t2, 1)}
    # model in the parent
    for shard, reals in zip(pshards, preal):
        replies = common.batch([_patch_line(c) for c in shard])
        for c, r, m in zip(shard, reals, replies):
            if "impl" not in m:
                raise common.Infra(f"patch driver: {m}")
            _check_patch(chk, c, r, m)
    for shard, reals in zip(eshards, ereal):
        replies = common.batch([_cli_line(a) for a in shard])
        for a, r, m in zip(shard, reals, replies):
            _check_e2e(chk, a, r, m)
    for shard, reals in zip(ushards, ureal):
        replies = common.batch([_cli_line(a) for a in shard])
        for a, r, m in zip(shard, reals, replies):
            _check_pure(chk, a, r, m)
    chk.extra["phase_wall_s"]["model_and_compare"] = round(time.time() - t3, 1)
    chk.samples = [{"patch": pcases[i]["runs"]} for i in (30, 400)] + [{"argv": list(e2e[i])} for i in (700, 2300)] + [{"argv": list(pure[-1])}]
    chk.exhaustive = True
    chk.extra["patch_cases"] = len(pcases)
    chk.extra["cli_pure_cases"] = len(pure)
    chk.extra["cli_main_cases"] = len(e2e)
    chk.assumptions = [
        "unittest.mock.patch replaces a module attribute on enter and puts the original back on exit (modelled by set / unwind)",
        "importlib.import_module executes a module's top-level from-imports against the current values of the standard targets",
        "argparse of CPython 3.12.1 for exactly the parser of cli.arg_parser() (modelled by classify/items/consume, exhaustively compared)",
        "tokens with non-ASCII digits or a trailing newline (argparse's negative-number regex) are outside the explored alphabet",
        "the closing of the FakeSnow instance after a *failed* set-up is not observable through the public API (covered by the model only)",
    ]
    chk.trusted += ["unittest.mock.patch / contextlib.ExitStack / importlib (modelled: Fs.Patch.set, unwind, importModule)",
                    "argparse 3.12.1 for fakesnow's parser (modelled: Fs.Cli.classify/items/consume), runpy"]


def replay(chk, case) -> None:
    if case["kind"] == "patch":
        real = _patch_worker([case["case"]])[0]
        reply = common.batch([_patch_line(case["case"])])[0]
        _check_patch(chk, case["case"], real, reply)
    elif case["kind"] == "cli-pure":
        args = tuple(case["args"])
        _check_pure(chk, args, _pure_real(args), common.batch([_cli_line(args)])[0])
    else:
        args = tuple(case["args"])
        real = common.shard_map(_e2e_worker, [[args]])[0][0]
        _check_e2e(chk, args, real, common.batch([_cli_line(args)])[0])
