"""C02 — unquoted identifiers fold to upper case; quoted ones are kept verbatim.

Two ties to the real code, both through the public API:

A. *reported names vs the model* — objects are created under generated identifiers (unquoted ASCII in random case,
   quoted with arbitrary characters) and every surface the property lists is read back: status messages, description
   names, DictCursor keys, conn.database / conn.schema (USE and connect), information_schema, DESCRIBE, SHOW.  Each
   reported name must equal `Fs.Fold.Ident.norm` of the identifier as written (driver `fold norm`).

B. *metamorphic twins* — generated scripts over every supported statement kind (queries, DML, DDL, USE, MERGE,
   SHOW/DESCRIBE, SET, transactions, information_schema) are rendered twice with independent random re-spellings of
   keyword case, unquoted identifier case and quoted-upper-case vs unquoted naming (the harness's renderer is the
   relation `Fs.Fold.CaseEq`), run on twin fresh instances, and the complete outcomes must be equal: rows, description
   (names and types), rowcount, status text, sqlstate, conn.database/conn.schema, or error class + errno + sqlstate.

MERGE clauses (incl. the THEN keywords, repaired in /repo by 9db44bc) are re-spelled like everything else; the driver's
`fold then` ties `thenIsDelete` to a lower-case `then delete` run.
"""
from __future__ import annotations

import random
import string

from lib import common
from lib.common import enc_list, enc_str, dec_list, dec_str

KEY_CI = "C02/quoted-name-matched-case-insensitively"
KEY_VAR = "C02/quoted-variable-name"

# ----------------------------------------------------------------------------------------------
# identifiers and spellings
# ----------------------------------------------------------------------------------------------

UNQ_FIRST = string.ascii_letters + "_"
UNQ_REST = string.ascii_letters + string.digits + "_"
QUOTED_CHARS = string.ascii_letters + string.digits + " _-#é√ß/+"   # no `$`/quotes/dots: variable substitution is C15's
RESERVED = {"select", "from", "table", "order", "group", "by", "as", "in", "is", "on", "or", "and", "not", "null", "true", "false", "all",
            "set", "use", "show", "desc", "case", "when", "then", "else", "end", "values", "into", "create", "drop", "view", "schema",
            "database", "column", "to", "if", "with", "where", "join", "using", "like", "int", "begin", "commit", "start", "current_date",
            "current_time", "current_timestamp", "current_user", "row", "rows", "sample", "qualify", "having", "limit", "union", "update",
            "delete", "insert", "merge", "alter", "add", "rename", "comment", "clone", "top", "left", "right", "full", "inner", "cross",
            "natural", "any", "some", "between", "exists", "distinct", "grant", "for", "of", "no", "do", "go", "at", "asc", "cast", "try_cast",
            "localtime", "localtimestamp", "connect", "increment", "minus", "regexp", "rlike", "trigger", "unique", "whenever", "check",
            "constraint", "revoke", "start", "tablesample", "lateral", "over", "ilike", "account", "issue", "organization", "gscluster",
            "connection", "following", "current", "intersect", "except", "offset", "fetch", "window", "pivot", "unpivot", "array", "object",
            "variant", "date", "time", "timestamp", "number", "text", "string", "float", "double", "boolean", "char", "binary", "x", "main",
            "temp", "system", "memory", "rowid", "name", "type", "kind", "status", "list", "map", "struct", "interval", "div", "mod", "xor",
            "percent", "end", "filter", "ignore", "respect", "nulls", "first", "last", "key", "primary", "foreign", "references", "default",
            "index", "exclude", "replace", "recursive", "returning", "within", "variable", "variables", "e", "n", "r", "b", "u"}


NONASCII = "éüñøåç"   # cased letters whose upper case is one letter too (no ß, no dotless i)


def gen_unquoted_unicode(rnd) -> str:
    """an unquoted identifier with non-ASCII cased letters (twin scripts: folding must treat é/É like e/E)"""
    base = gen_unquoted(rnd)
    pos = rnd.randrange(1, len(base) + 1)
    return base[:pos] + rnd.choice(NONASCII) + base[pos:] + (rnd.choice(NONASCII) if rnd.random() < 0.5 else "")


_ENGINE_KEYWORDS: set = set()


def _engine_keywords() -> set:
    """every keyword of the engine (DuckDB) and of sqlglot's Snowflake tokenizer: a random name that happens to be one of
    them (SEMI, ANTI, ASOF, …) cannot be written unquoted in every position, so it is not an 'unquoted identifier' of the
    generator (said in the evidence: reserved words are not explored)"""
    if not _ENGINE_KEYWORDS:
        import duckdb
        _ENGINE_KEYWORDS.update(r[0].lower() for r in duckdb.connect(":memory:").execute("select keyword_name from duckdb_keywords()").fetchall())
        from sqlglot.dialects.snowflake import Snowflake
        _ENGINE_KEYWORDS.update(k.lower() for k in Snowflake.Tokenizer.KEYWORDS if k.replace("_", "").isalnum())
    return _ENGINE_KEYWORDS


def gen_unquoted(rnd) -> str:
    kws = _engine_keywords()
    while True:
        n = rnd.choice([1, 2, 3, 4, 6, 9])
        s = rnd.choice(UNQ_FIRST) + "".join(rnd.choice(UNQ_REST) for _ in range(n))
        if s.lower() not in RESERVED and s.lower() not in kws and not s.lower().startswith("_fs"):
            return s


def gen_quoted(rnd) -> str:
    while True:
        n = rnd.choice([1, 2, 3, 5, 8])
        s = "".join(rnd.choice(QUOTED_CHARS) for _ in range(n)).strip()
        if s and not s.lower().startswith("_fs"):
            return s


def recase(rnd, s: str) -> str:
    k = rnd.random()
    if k < 0.25:
        return s.lower()
    if k < 0.5:
        return s.upper()
    return "".join(c.upper() if rnd.random() < 0.5 else c.lower() for c in s)


class Id:
    """an identifier as the script means it: unquoted (case free) or quoted (verbatim)"""

    def __init__(self, text: str, quoted: bool):
        self.text, self.quoted = text, quoted

    @property
    def norm_py(self) -> str:  # only used to build literals for information_schema filters; verdicts use the Lean norm
        return self.text if self.quoted else self.text.upper()

    def wire(self) -> str:
        return ("q" if self.quoted else "u") + enc_str(self.text)

    def spell(self, rnd) -> str:
        if self.quoted:
            return '"' + self.text + '"'
        if rnd.random() < 0.12:
            return '"' + self.text.upper() + '"'  # quoted naming of the same object
        return recase(rnd, self.text)


def render(rnd, toks) -> str:
    """tokens: ('k', keyword/function/type text) re-cased; ('K', text) upper-cased verbatim (MERGE THEN keywords);
    Id objects; ('x', raw text) verbatim"""
    out = []
    for t in toks:
        if isinstance(t, Id):
            out.append(t.spell(rnd))
        elif t[0] == "I":   # an object name that may also be written IDENTIFIER('<name>') (unquoted names, one-part references)
            out.append(f"{recase(rnd, 'identifier')}('{recase(rnd, t[1].text)}')" if not t[1].quoted and rnd.random() < 0.4 else t[1].spell(rnd))
        elif t[0] == "Qn":   # scope position of a SHOW / DESCRIBE: quoted upper-case form or any-case unquoted form, 50/50
            out.append('"' + t[1].text.upper() + '"' if rnd.random() < 0.5 else recase(rnd, t[1].text))
        elif t[0] == "k":
            out.append(recase(rnd, t[1]))
        elif t[0] == "v":
            out.append("$" + recase(rnd, t[1]))
        else:
            out.append(t[1])
    return " ".join(out)


def k(s):
    return ("k", s)


def I(i):
    return ("I", i)


def Qn(name):
    return ("Qn", Id(name, False))


def x(s):
    return ("x", s)


# ----------------------------------------------------------------------------------------------
# Part B: script generator (abstract statements = token lists)
# ----------------------------------------------------------------------------------------------

class Script:
    def __init__(self, rnd):
        self.rnd = rnd
        r = rnd
        mk = lambda: (Id(gen_quoted(r), True) if r.random() < 0.25 else  # noqa: E731
                      Id(gen_unquoted_unicode(r), False) if r.random() < 0.3 else Id(gen_unquoted(r), False))
        self.tabs = [mk(), mk()]
        while self.tabs[1].norm_py.upper() == self.tabs[0].norm_py.upper():
            self.tabs[1] = mk()
        self.cols = []
        while len(self.cols) < 3:
            c = mk()
            if all(c.norm_py.upper() != d.norm_py.upper() for d in self.cols):
                self.cols.append(c)
        self.schema2 = Id(gen_unquoted(r), False)
        self.view = Id(gen_unquoted(r), False)
        self.var = Id(gen_unquoted(r), False)
        self.alias = mk()
        self.db2 = Id(gen_unquoted(r), False)
        self.tagname = Id(gen_unquoted(r), False)
        self.jalias = Id(gen_unquoted(r), False)
        while self.jalias.norm_py.upper() in {x_.norm_py.upper() for x_ in self.cols + self.tabs}:
            self.jalias = Id(gen_unquoted(r), False)
        self.n = 0

    def stmts(self, length: int) -> list:
        r = self.rnd
        t0, t1 = self.tabs
        a, b, c = self.cols
        out = [
            [k("create table"), t0, x("("), a, k("int primary key"), x(","), b, k("varchar"), x(","), c, k("int"), x(")")],
            [k("insert into"), t0, x("("), a, x(","), b, x(","), c, x(")"), k("values"), x("(1, 'Xy', 10), (2, 'zW', 20), (3, NULL, 30)")],
            [k("create table"), t1, x("("), a, k("int"), x(","), b, k("varchar"), x(")")],
            [k("insert into"), t1, k("values"), x("(2, 'new'), (4, 'four')")],
        ]
        pool = [
            lambda: [k("select"), a, x(","), b, k("as"), self.alias, x(","), k("upper"), x("("), b, x(")"), k("from"), t0, k("where"), c, x(">"), x(str(r.choice([0, 10, 25]))), k("order by"), a],
            lambda: [k("select"), x("*"), k("from"), t0, k("order by"), x("1")],
            lambda: [k("select"), t0, x("."), a, x(","), k("count"), x("(*)"), k("as"), self.alias, k("from"), t0, k("join"), t1, k("on"), t0, x("."), a, x("="), t1, x("."), a, k("group by"), t0, x("."), a, k("order by"), x("1")],
            lambda: [k("with"), self.view, k("as"), x("("), k("select"), a, k("from"), t1, x(")"), k("select"), k("sum"), x("("), a, x(")"), k("as"), self.alias, k("from"), self.view],
            lambda: [k("select"), k("case when"), c, x(">"), x("15"), k("then"), x("'hi'"), k("else"), x("'lo'"), k("end"), k("as"), self.alias, x(","), k("coalesce"), x("("), b, x(", 'none')"), k("from"), t0, k("order by"), a, k("desc")],
            lambda: [k("select"), a, k("from"), t0, k("where"), a, k("in"), x("("), k("select"), a, k("from"), t1, x(")"), k("union all"), k("select"), a, k("from"), t1, k("order by"), x("1")],
            lambda: [k("insert into"), t1, x("("), a, x(")"), k("select"), a, k("from"), t0, k("where"), c, x(">="), x("20")],
            lambda: [k("update"), t0, k("set"), c, x("="), c, x("+ 1"), k("where"), a, x("="), x(str(r.choice([1, 2, 9])))],
            lambda: [k("delete from"), t1, k("where"), a, x(">"), x(str(r.choice([2, 3, 100])))],
            lambda: [k("truncate table"), I(t1)],
            lambda: [k("alter table"), I(t1), k("add column"), self.alias, k("int")],
            lambda: [k("alter table"), t1, k("drop column"), self.alias],
            lambda: [k("alter table"), t1, k("rename column"), b, k("to"), self.view],
            lambda: [k("alter table"), t1, k("rename column"), self.view, k("to"), b],
            lambda: [k("create view"), I(self.view), k("as select"), a, x(","), b, k("from"), I(t0)],
            lambda: [k("create or replace view"), self.view, k("as select"), a, k("from"), t0],
            lambda: [k("select"), x("*"), k("from"), self.view, k("order by"), x("1")],
            lambda: [k("drop view"), I(self.view)],
            lambda: [k("drop view if exists"), I(self.view)],
            lambda: [k("create table"), I(self.alias), k("as select"), a, x(","), b, k("from"), t0],
            lambda: [k("create table"), I(self.alias), x("("), a, k("int"), x(","), b, k("varchar"), x("(5))")],
            lambda: [k("insert into"), I(t1), x("("), a, x(")"), k("values"), x("(77)")],
            lambda: [k("select"), a, k("from"), I(t0), k("order by"), a],
            lambda: [k("create or replace table"), self.alias, k("clone"), t0],
            lambda: [k("drop table if exists"), I(self.alias)],
            lambda: [k("drop table"), I(self.alias)],
            lambda: [k("comment on table"), t0, k("is"), x("'A Comment'")],
            lambda: [k("create schema"), I(self.schema2)],
            lambda: [k("create schema if not exists"), I(self.schema2)],
            lambda: [k("use schema"), self.schema2],
            lambda: [k("use schema"), Id("s1", False)],
            lambda: [k("use schema"), Id("db1", False), x("."), self.schema2],
            lambda: [k("create table"), self.schema2, x("."), t0, x("("), a, k("int"), x(")")],
            lambda: [k("drop schema"), I(self.schema2)],
            lambda: [k("drop schema if exists"), I(Id("s1", False))],
            lambda: [k("create database"), self.db2],
            lambda: [k("use database"), self.db2],
            lambda: [k("use database"), Id("db1", False)],
            lambda: [k("describe table"), t0],
            lambda: [k("describe table"), Id("db1", False), x("."), Id("s1", False), x("."), t1],
            lambda: [k("describe view"), self.view],
            lambda: [k("show tables")],
            lambda: [k("show tables in schema"), Id("db1", False), x("."), Id("s1", False)],
            lambda: [k("show schemas")],
            lambda: [k("show terse objects in"), Id("db1", False), x("."), Id("s1", False)],
            lambda: [k("show primary keys")],
            # every scope position of SHOW / DESCRIBE with quoted and unquoted spellings of the scope names
            lambda: [k("show schemas in database"), Qn("db1")],
            lambda: [k("show schemas in"), Qn("db1")],
            lambda: [k("show terse schemas in database"), Qn("db1")],
            lambda: [k("show tables in database"), Qn("db1")],
            lambda: [k("show tables in schema"), Qn("db1"), x("."), Qn("s1")],
            lambda: [k("show tables in"), Qn("db1"), x("."), Qn("s1")],
            lambda: [k("show terse tables in schema"), Qn("s1")],
            lambda: [k("show objects in schema"), Qn("db1"), x("."), Qn("s1")],
            lambda: [k("show objects in database"), Qn("db1")],
            lambda: [k("show primary keys in schema"), Qn("db1"), x("."), Qn("s1")],
            lambda: [k("show primary keys in schema"), Qn("s1")],
            lambda: [k("show primary keys in table"), t0],
            lambda: [k("describe table"), Qn("db1"), x("."), Qn("s1"), x("."), t0],
            lambda: [k("use schema"), Qn("db1"), x("."), Qn("s1")],
            lambda: [k("use database"), Qn("db1")],
            lambda: [k("select"), k("table_name"), x(","), k("table_type"), k("from"), k("information_schema"), x("."), k("tables"), k("where"), k("table_schema"), x("= 'S1'"), k("order by"), x("1")],
            lambda: [k("select"), k("column_name"), x(","), k("data_type"), k("from"), k("information_schema"), x("."), k("columns"), k("where"), k("table_name"), x("= '" + t0.norm_py.replace("'", "''") + "'"), k("order by"), k("ordinal_position")],
            lambda: [k("set"), k(self.var.text), x("="), x(str(r.randint(1, 9)))],
            lambda: [k("select"), ("v", self.var.text), k("as"), self.alias],
            lambda: [k("unset"), k(self.var.text)],
            lambda: [k("begin")],
            lambda: [k("commit")],
            lambda: [k("rollback")],
            lambda: [k("select"), k("current_database"), x("(),"), k("current_schema"), x("()")],
            lambda: [k("select"), k("to_date"), x("('2024-01-02')"), k("as"), self.alias, x(","), k("dateadd"), x("("), k("day"), x(", 1,"), k("to_date"), x("('2024-01-02'))")],
            lambda: [k("select"), k("object_construct"), x("('k', 1):k::"), k("int"), k("as"), self.alias],
            lambda: [k("select"), k("array_size"), x("("), k("array_construct"), x("(1,2))"), k("as"), self.alias],
            lambda: [k("select"), a, k("from"), k("identifier"), x("('" + (t0.spell(r) if not t0.quoted else t0.text) + "')"), k("order by"), a] if not t0.quoted else [k("select"), x("1")],
            lambda: [k("select"), k("nope_col"), k("from"), t0],
            lambda: [k("select"), x("*"), k("from"), k("nope_table")],
            lambda: [k("select"), a, k("from"), t0, k("sample"), x("(50)"), k("seed"), x("(7)"), k("order by"), a],
            lambda: [k("merge into"), t0, k("using"), t1, k("on"), t0, x("."), a, x("="), t1, x("."), a,
                     k("when matched"), k("then update set"), t0, x("."), b, x("="), t1, x("."), b,
                     k("when not matched"), k("then insert"), x("("), a, x(","), b, x(")"), k("values"), x("("), t1, x("."), a, x(","), t1, x("."), b, x(")")],
            lambda: [k("merge into"), t0, k("using"), t1, k("on"), t0, x("."), a, x("="), t1, x("."), a, k("when matched"), k("then delete")],
            # transforms that compare identifiers with each other inside ONE statement (every occurrence is re-spelled independently):
            # select alias used in JOIN … ON (alias_in_join), COLUMNn of VALUES (values_columns), FLATTEN alias, subquery/table aliases,
            # MERGE source alias, GROUP BY / ORDER BY / HAVING on an alias, correlated subquery
            lambda: [k("select"), t0, x("."), a, k("as"), self.jalias, x(","), t1, x("."), b, k("from"), t0, k("join"), t1, k("on"), self.jalias, x("="), t1, x("."), a, k("order by"), x("1")],
            lambda: [k("select"), t0, x("."), a, k("as"), self.jalias, k("from"), t0, k("left join"), t1, k("on"), self.jalias, x("="), t1, x("."), a, k("where"), self.jalias, x("> 0"), k("order by"), self.jalias],
            lambda: [k("select"), k("column1"), x(","), k("column2"), k("from"), k("values"), x("(1, 'a'), (2, 'b')"), k("order by"), k("column1")],
            lambda: [k("select"), self.jalias, x("."), a, x(","), self.view, x("."), a, k("from"), t0, k("as"), self.jalias, k("join"), t1, k("as"), self.view, k("on"), self.jalias, x("."), a, x("="), self.view, x("."), a, k("order by"), x("1")],
            lambda: [k("select"), self.jalias, x("."), k("value"), k("from"), k("table"), x("("), k("flatten"), x("("), k("input"), x("=>"), k("parse_json"), x("('[1, 2]')))"), k("as"), self.jalias],
            lambda: [k("select"), self.jalias, x("."), c, k("from"), x("("), k("select"), c, k("from"), t0, x(")"), k("as"), self.jalias, k("where"), self.jalias, x("."), c, x("> 5"), k("order by"), x("1")],
            lambda: [k("select"), b, k("as"), self.jalias, x(","), k("count"), x("(*)"), k("from"), t0, k("group by"), self.jalias, k("having"), k("count"), x("(*) > 0"), k("order by"), self.jalias],
            lambda: [k("select"), a, k("from"), t0, k("where"), k("exists"), x("("), k("select"), x("1"), k("from"), t1, k("where"), t1, x("."), a, x("="), t0, x("."), a, x(")"), k("order by"), a],
            lambda: [k("merge into"), t0, k("using"), x("("), k("select"), a, x(","), b, k("from"), t1, x(")"), k("as"), self.jalias, k("on"), t0, x("."), a, x("="), self.jalias, x("."), a,
                     k("when matched then update set"), b, x("="), self.jalias, x("."), b],
            lambda: [k("update"), t0, k("set"), b, x("="), t1, x("."), b, k("from"), t1, k("where"), t0, x("."), a, x("="), t1, x("."), a],
            lambda: [k("delete from"), t0, k("using"), t1, k("where"), t0, x("."), a, x("="), t1, x("."), a, k("and"), t1, x("."), a, x("> 100")],
            lambda: [k("with"), self.jalias, k("as"), x("("), k("select"), a, x(","), c, k("from"), t0, x(")"), k("select"), self.jalias, x("."), a, k("from"), self.jalias, k("join"), t1, k("on"), self.jalias, x("."), a, x("="), t1, x("."), a, k("order by"), x("1")],
            # statements sqlglot hands over as raw-text Commands / fakesnow recognises by keyword text (transforms.tag, expr.key_command, …)
            lambda: [k("alter table"), t0, k("modify column"), b, k("set tag"), self.tagname, x("= 'sales'")],
            lambda: [k("alter table"), t0, k("alter column"), b, k("set tag"), self.tagname, x("= 'x y'")],
            lambda: [k("alter table"), t0, k("set tag"), self.tagname, x("= 'bar'")],
            lambda: [k("create tag"), self.tagname],
            lambda: [k("create tag if not exists"), self.tagname, k("comment"), x("= 'c'")],
            lambda: [k("alter table"), t0, k("cluster by"), x("("), a, x(")")],
            lambda: [k("create transient table"), self.alias, x("("), a, k("int"), x(")")],
            lambda: [k("create or replace temporary table"), self.alias, x("("), a, k("varchar"), x("(5))")],
            lambda: [k("alter session set"), k("timezone"), x("= 'UTC'")],
            lambda: [k("grant select on table"), t0, k("to role"), self.tagname],
            lambda: [k("show columns in table"), t0],
            lambda: [k("select top"), x("1"), a, k("from"), t0, k("order by"), a],
            lambda: [k("select"), a, k("from"), t0, k("order by"), a, k("limit"), x("1"), k("offset"), x("1")],
            lambda: [k("start transaction")],
            lambda: [k("begin transaction")],
            lambda: [k("truncate table if exists"), t1],
            lambda: [k("comment if exists on table"), t0, k("is"), x("'c2'")],
            lambda: [k("alter table"), t1, k("alter"), b, k("comment"), x("'col comment'")],
            lambda: [k("describe table"), k("information_schema"), x("."), k("tables")],
            lambda: [k("select"), k("try_to_decimal"), x("('1.5', 10, 2)"), k("as"), self.alias, x(","), k("to_decimal"), x("('2.5', 10, 1),"), k("try_parse_json"), x("('{}'),"),
                     k("to_timestamp_ntz"), x("('2024-01-02 03:04:05'),"), k("sha2_hex"), x("('a'),"), k("sha2"), x("('a', 256)")],
        ]
        self.pool_size = len(pool)
        for _ in range(length):
            j = r.randrange(len(pool))
            out.append(pool[j]())
        return out


def gen_twin_case(rnd) -> dict:
    sc = Script(rnd)
    toks = sc.stmts(rnd.randint(8, 18))
    ra, rb = random.Random(rnd.getrandbits(64)), random.Random(rnd.getrandbits(64))
    kinds = [" ".join(t[1] for t in st if not isinstance(t, Id) and t[0] in "kK")[:40] for st in toks]
    return {"kind": "twin", "a": [render(ra, st) for st in toks], "b": [render(rb, st) for st in toks], "kinds": kinds}


# ----------------------------------------------------------------------------------------------
# real runs
# ----------------------------------------------------------------------------------------------

def _canon_cell(v):
    import datetime
    import decimal
    if isinstance(v, datetime.datetime):
        return ["dt", v.isoformat()]
    if isinstance(v, (datetime.date, datetime.time)):
        return ["d", v.isoformat()]
    if isinstance(v, decimal.Decimal):
        return ["dec", str(v)]
    if isinstance(v, float):
        return ["f", repr(v)]
    if isinstance(v, (bytes, bytearray)):
        return ["b", bytes(v).hex()]
    if isinstance(v, dict):
        return {"dict": [[kk, _canon_cell(vv)] for kk, vv in v.items()]}
    if isinstance(v, (list, tuple)):
        return [_canon_cell(e) for e in v]
    return v


def _outcome(conn, sql: str, dict_cursor: bool = False, cur=None) -> dict:
    import snowflake.connector.errors as E
    from snowflake.connector.cursor import DictCursor
    cur = cur or (conn.cursor(DictCursor) if dict_cursor else conn.cursor())
    try:
        cur.execute(sql)
    except E.Error as e:
        return {"err": type(e).__name__, "errno": e.errno, "sqlstate": e.sqlstate, "cur_sqlstate": cur.sqlstate,
                "ctx": [conn.database, conn.schema]}
    except Exception as e:
        return {"err": type(e).__name__, "ctx": [conn.database, conn.schema]}
    try:
        rows = cur.fetchall()
        if dict_cursor:
            rows = [[[kk, _canon_cell(vv)] for kk, vv in r.items()] for r in rows]
        else:
            rows = [_canon_cell(list(r)) for r in rows]
    except Exception as e:
        rows = "fetch!" + type(e).__name__
    try:
        desc = [[d.name, d.type_code, d.precision, d.scale, d.is_nullable] for d in cur.description]
    except Exception as e:
        desc = "desc!" + type(e).__name__
    return {"rows": rows, "desc": desc, "rowcount": cur.rowcount, "sqlstate": cur.sqlstate, "ctx": [conn.database, conn.schema]}


def run_script(sqls: list[str]) -> list[dict]:
    import fakesnow
    import snowflake.connector
    with fakesnow.patch():
        from snowflake.connector.cursor import DictCursor
        conn = snowflake.connector.connect(database="db1", schema="s1")
        tc, dc = conn.cursor(), conn.cursor(DictCursor)   # the script's statements share one long-lived cursor of each kind
        return [_outcome(conn, s, dict_cursor=(i % 5 == 4), cur=(dc if i % 5 == 4 else tc)) for i, s in enumerate(sqls)]


def gen_names_case(rnd) -> dict:
    ids = {}
    used = set()

    def fresh(quoted_p):
        while True:
            i = Id(gen_quoted(rnd), True) if rnd.random() < quoted_p else Id(gen_unquoted(rnd), False)
            if i.norm_py.upper() not in used:
                used.add(i.norm_py.upper())
                return i
    for name in ("t", "c1", "c2", "c3", "al", "v", "s", "d", "it", "isch"):
        ids[name] = fresh(0.0 if name in ("d", "it", "isch") else 0.4)
    ids["conn_db"] = fresh(0.0)        # distinct (after folding) from every other name of the scenario, `d` in particular
    ids["conn_schema"] = fresh(0.0)
    spell = {n: (recase(rnd, i.text) if not i.quoted else '"' + i.text + '"') for n, i in ids.items()}
    pa = "q" + "".join(rnd.choice(string.ascii_letters) for _ in range(rnd.randint(2, 6))) + "x"
    pb = pa.swapcase() if rnd.random() < 0.5 else pa.upper()
    return {"kind": "names", "pair": [pa, pb], "ids": {n: [i.text, i.quoted] for n, i in ids.items()}, "spell": spell,
            "respell": {n: (recase(rnd, i.text) if not i.quoted else '"' + i.text + '"') for n, i in ids.items()}}


def run_names(case: dict) -> dict:
    """create objects under the generated identifiers and read every reporting surface back"""
    import fakesnow
    import snowflake.connector
    from snowflake.connector.cursor import DictCursor
    sp, rs = case["spell"], case["respell"]
    obs = {}
    lit = lambda n: (case["ids"][n][0] if case["ids"][n][1] else case["ids"][n][0].upper()).replace("'", "''")  # noqa: E731

    def ex(conn, sql, dc=False):
        cur = conn.cursor(DictCursor) if dc else conn.cursor()
        cur.execute(sql)
        return cur

    with fakesnow.patch():
        conn = snowflake.connector.connect(database=recase(random.Random(1), case["ids"]["conn_db"][0]), schema=case["spell"]["conn_schema"].strip('"'))
        obs["connect"] = [conn.database, conn.schema]
        try:
            obs["create_table"] = ex(conn, f"create table {sp['t']} ({sp['c1']} int primary key, {sp['c2']} varchar, {sp['c3']} int)").fetchall()[0][0]
            ex(conn, f"insert into {rs['t']} values (1, 'a', 2)")
            cur = ex(conn, f"select {rs['c1']}, {rs['c2']} as {sp['al']}, {rs['c3']} from {rs['t']}")
            obs["select_desc"] = [d.name for d in cur.description]
            cur = ex(conn, f"select {rs['c1']}, {rs['c2']} as {sp['al']} from {rs['t']}", dc=True)
            obs["dict_keys"] = list(cur.fetchall()[0].keys())
            cur = ex(conn, f"select * from {rs['t']}")
            obs["star_desc"] = [d.name for d in cur.description]
            obs["describe"] = [r[0] for r in ex(conn, f"describe table {rs['t']}").fetchall()]
            obs["show_schemas_quoted_scope"] = [r[1] for r in ex(conn, f'show schemas in database "{conn.database}"').fetchall() if str(r[1]).lower() != "information_schema"]
            obs["show_tables_quoted_scope"] = [r[1] for r in ex(conn, f'show tables in schema "{conn.database}"."{conn.schema}"').fetchall()]
            lc = conn.cursor()   # one long-lived cursor: statement pairs that differ only in the case of a QUOTED identifier
            qa, qb = case["pair"]
            lc.execute(f'select 1 as "{qa}"')
            obs["pair_select_1"] = [d.name for d in lc.description]
            lc.execute(f'SELECT 1 AS "{qb}"')
            obs["pair_select_2"] = [d.name for d in lc.description]
            lc.execute(f'create table "{qa}" (a int)')
            obs["pair_create_1"] = lc.fetchall()[0][0]
            lc.execute(f'drop table "{qa}"')
            lc.execute(f'CREATE TABLE "{qb}" (A INT)')
            obs["pair_create_2"] = lc.fetchall()[0][0]
            lc.execute(f'DROP TABLE "{qb}"')
            obs["pair_drop_2"] = lc.fetchall()[0][0]
            obs["show_pk_table"] = [[r[3], r[4]] for r in ex(conn, f"show primary keys in table {rs['t']}").fetchall()]
            obs["show_pk_schema"] = [[r[2], r[3], r[4]] for r in ex(conn, f"show primary keys in schema {conn.database}.{conn.schema}").fetchall()]
            obs["info_tables"] = [r[0] for r in ex(conn, f"select table_name from information_schema.tables where table_schema = '{conn.schema}' and table_name = '{lit('t')}'").fetchall()]
            obs["info_columns"] = [r[0] for r in ex(conn, f"select column_name from information_schema.columns where table_name = '{lit('t')}' order by ordinal_position").fetchall()]
            obs["show_tables"] = sorted(r[1] for r in ex(conn, f"show tables in schema {conn.database}.{conn.schema}").fetchall())
            obs["create_view"] = ex(conn, f"create view {sp['v']} as select {rs['c1']} from {rs['t']}").fetchall()[0][0]
            obs["view_desc"] = [d.name for d in ex(conn, f"select * from {rs['v']}").description]
            obs["drop_view"] = ex(conn, f"drop view {rs['v']}").fetchall()[0][0]
            obs["create_schema"] = ex(conn, f"create schema {sp['s']}").fetchall()[0][0]
            obs["show_schemas"] = [r[1] for r in ex(conn, "show schemas").fetchall()]
            ex(conn, f"use schema {rs['s']}")
            obs["use_schema"] = [conn.database, conn.schema]
            obs["drop_table"] = ex(conn, f"drop table {conn.database}.{case['spell']['conn_schema']}.{rs['t']}").fetchall()[0][0]
            # object names written IDENTIFIER('<name>') / IDENTIFIER($var): reported folded like any unquoted name
            obs["ident_create_table"] = ex(conn, f"create table identifier('{sp['it']}') (a int)").fetchall()[0][0]
            obs["ident_star_desc"] = [d.name for d in ex(conn, f"select * from identifier('{rs['it']}')").description]
            ex(conn, f"set nm = '{rs['it']}'")
            obs["ident_drop_table"] = ex(conn, "drop table identifier($nm)").fetchall()[0][0]
            obs["ident_create_schema"] = ex(conn, f"create schema identifier('{sp['isch']}')").fetchall()[0][0]
            ex(conn, f"use schema {rs['isch']}")
            obs["ident_use_schema"] = [conn.database, conn.schema]
            obs["ident_drop_schema"] = ex(conn, f"drop schema identifier('{rs['isch']}')").fetchall()[0][0]
            obs["ident_after_drop"] = [conn.database, conn.schema]
            try:
                ex(conn, "create table zz9 (a int)")
                obs["ident_unqualified_after_drop"] = "ok"
            except snowflake.connector.errors.ProgrammingError as e:
                obs["ident_unqualified_after_drop"] = e.errno
            obs["create_database"] = ex(conn, f"create database {sp['d']}").fetchall()[0][0]
            ex(conn, f"use database {rs['d']}")
            obs["use_database"] = conn.database
        except Exception as e:
            obs["error"] = f"{type(e).__name__}: {str(e)[:200]}"
    return obs


def run_ci() -> dict:
    """the finding C02/quoted-name-matched-case-insensitively, minimal"""
    import fakesnow
    import snowflake.connector
    with fakesnow.patch():
        conn = snowflake.connector.connect(database="db1", schema="s1")
        cur = conn.cursor()
        out = {}
        try:
            cur.execute('create table t ("abc" int)')
        except Exception as e:
            return {"error": f"{type(e).__name__}: {str(e)[:150]}"}
        for ref in ("ABC", "abc", '"ABC"', '"abc"'):
            try:
                cur.execute(f"select {ref} from t")
                out[ref] = [d.name for d in cur.description]
            except Exception as e:
                out[ref] = "err:" + type(e).__name__
        return out


def gen_dbpath_case(rnd) -> dict:
    name = gen_unquoted(rnd)
    return {"kind": "dbpath", "first": recase(rnd, name), "later": [recase(rnd, name), name.upper(), name.lower()],
            "schema": [recase(rnd, "s1"), recase(rnd, "s1")]}


def run_dbpath(case: dict) -> dict:
    """persisted instance: the database written under one spelling of the connect argument must be the database found
    under every other spelling (unquoted identifiers are case-insensitive; conn.database is reported in upper case)"""
    import tempfile
    import fakesnow
    import snowflake.connector
    out = {"later": []}
    with tempfile.TemporaryDirectory() as tmp:
        try:
            with fakesnow.patch(db_path=tmp):
                c = snowflake.connector.connect(database=case["first"], schema=case["schema"][0])
                out["first_ctx"] = [c.database, c.schema]
                c.cursor().execute("create table t1 (x int)")
                c.cursor().execute("insert into t1 values (1), (2)")
                c.close()
            for sp in case["later"]:
                with fakesnow.patch(db_path=tmp):
                    c = snowflake.connector.connect(database=sp, schema=case["schema"][1])
                    cur = c.cursor()
                    try:
                        cur.execute("select x from t1 order by x")
                        out["later"].append([c.database, c.schema, [r[0] for r in cur.fetchall()]])
                    except Exception as e:
                        out["later"].append([c.database, c.schema, "err:" + type(e).__name__])
                    c.close()
        except Exception as e:
            out["error"] = f"{type(e).__name__}: {str(e)[:150]}"
    return out


def run_var() -> dict:
    """the finding C02/quoted-variable-name, minimal"""
    import fakesnow
    import snowflake.connector
    out = {}
    with fakesnow.patch():
        conn = snowflake.connector.connect(database="db1", schema="s1")
        for tag, setname, ref in (("unquoted", "vAr1", "VAR1"), ("quoted", '"VAR2"', "var2")):
            cur = conn.cursor()
            try:
                cur.execute(f"set {setname} = 5")
                cur.execute(f"select ${ref}")
                out[tag + ":select"] = cur.fetchall()[0][0]
            except Exception as e:
                out[tag + ":select"] = "err:" + type(e).__name__
            try:
                cur.execute(f"unset {ref}")
                out[tag + ":unset"] = "ok"
            except Exception as e:
                out[tag + ":unset"] = "err:" + type(e).__name__
        try:
            cur = conn.cursor()
            cur.execute("create table mt (a int)")
            cur.execute("create table ms (a int)")
            cur.execute("insert into mt values (1), (2)")
            cur.execute("insert into ms values (2)")
            cur.execute("merge into mt using ms on mt.a = ms.a when matched then delete")
            cur.fetchall()
            cur.execute("select a from mt")
            out["merge:then delete"] = [r[0] for r in cur.fetchall()]
        except Exception as e:
            out["merge:then delete"] = "err:" + type(e).__name__
        for tag, sql in (("lower", "alter table mt modify column a set tag cost = 'x'"), ("upper", "ALTER TABLE MT MODIFY COLUMN A SET TAG COST = 'x'"),
                         ("mixed", "Alter Table mt Modify Column a Set Tag cost = 'x'")):
            try:
                cur = conn.cursor()
                cur.execute(sql)
                out["settag:" + tag] = cur.fetchall()
            except Exception as e:
                out["settag:" + tag] = "err:" + type(e).__name__
    return out


def _worker(shard):
    import fakesnow
    assert common.REPO in __import__("pathlib").Path(fakesnow.__file__).resolve().parents, fakesnow.__file__
    out = []
    for case in shard:
        if case["kind"] == "twin":
            out.append([run_script(case["a"]), run_script(case["b"])])
        elif case["kind"] == "names":
            out.append(run_names(case))
        elif case["kind"] == "var":
            out.append(run_var())
        elif case["kind"] == "dbpath":
            out.append(run_dbpath(case))
        else:
            out.append(run_ci())
    return out


# ----------------------------------------------------------------------------------------------
# verdicts
# ----------------------------------------------------------------------------------------------

def _check_twin(chk, case, real) -> None:
    ra, rb = real
    chk.case(("twin", tuple(case["a"]), tuple(case["b"])), nontrivial=True)
    for i, (oa, ob) in enumerate(zip(ra, rb)):
        chk.count("stmt:" + case["kinds"][i])
        chk.count("outcome:" + ("error:" + str(oa.get("errno") or oa["err"]) if "err" in oa else "ok"))
        if oa != ob:
            diff = [kk for kk in set(oa) | set(ob) if oa.get(kk) != ob.get(kk)]
            chk.violation(f"statement #{i} gives different outcomes under two spellings: `{case['a'][i]}` -> "
                          f"{ {kk: oa.get(kk) for kk in diff} } but `{case['b'][i]}` -> { {kk: ob.get(kk) for kk in diff} }",
                          {**case, "step": i}, broken="C02_outcome_invariant_partial (twin-run correspondence)")
            return


def _check_names(chk, case, real, reply) -> None:
    chk.case(("names", tuple(sorted((n, tuple(v)) for n, v in case["ids"].items()))), nontrivial=True)
    names = list(case["ids"])
    norms = dict(zip(names, [dec_str(s) for s in dec_list(reply["norm"])]))
    N = norms
    for n in names:
        chk.count("ident:" + ("quoted" if case["ids"][n][1] else "unquoted"))
    if "error" in real:
        chk.violation(f"naming scenario failed: {real['error']}", case, broken="C02 reported names (correspondence with Ident.norm)")
        return
    want = {
        "connect": [N["conn_db"], N["conn_schema"]],
        "create_table": f"Table {N['t']} successfully created.",
        "select_desc": [N["c1"], N["al"], N["c3"]],
        "dict_keys": [N["c1"], N["al"]],
        "star_desc": [N["c1"], N["c2"], N["c3"]],
        "describe": [N["c1"], N["c2"], N["c3"]],
        "show_schemas_quoted_scope": [N["conn_schema"]],
        "show_tables_quoted_scope": [N["t"]],
        "pair_select_1": [case["pair"][0]], "pair_select_2": [case["pair"][1]],
        "pair_create_1": f"Table {case['pair'][0]} successfully created.", "pair_create_2": f"Table {case['pair'][1]} successfully created.",
        "pair_drop_2": f"{case['pair'][1]} successfully dropped.",
        "show_pk_table": [[N["t"], N["c1"]]],
        "show_pk_schema": [[N["conn_schema"], N["t"], N["c1"]]],
        "info_tables": [N["t"]],
        "info_columns": [N["c1"], N["c2"], N["c3"]],
        "show_tables": [N["t"]],
        "create_view": f"View {N['v']} successfully created.",
        "view_desc": [N["c1"]],
        "drop_view": f"{N['v']} successfully dropped.",
        "create_schema": f"Schema {N['s']} successfully created.",
        "use_schema": [N["conn_db"], N["s"]],
        "drop_table": f"{N['t']} successfully dropped.",
        "ident_create_table": f"Table {N['it']} successfully created.",
        "ident_star_desc": ["A"],
        "ident_drop_table": f"{N['it']} successfully dropped.",
        "ident_create_schema": f"Schema {N['isch']} successfully created.",
        "ident_use_schema": [N["conn_db"], N["isch"]],
        "ident_drop_schema": f"{N['isch']} successfully dropped.",
        "ident_after_drop": [N["conn_db"], None],
        "ident_unqualified_after_drop": 90106,
        "create_database": f"Database {N['d']} successfully created.",
        "use_database": N["d"],
    }
    for kk, w in want.items():
        got = real.get(kk)
        if kk == "show_schemas":
            continue
        if got != w:
            chk.violation(f"reported name differs from the folded name at `{kk}`: got {got!r}, Ident.norm says {w!r} "
                          f"(identifiers as written: {case['spell']}, re-spelled in later statements as {case['respell']})",
                          case, broken="C02_reported_upper / C02_quoted_verbatim / C02_status_name (correspondence with Ident.norm)")
            return
    if N["s"] not in real.get("show_schemas", []):
        chk.violation(f"SHOW SCHEMAS does not list {N['s']!r}: {real.get('show_schemas')}", case, broken="C02_reported_upper (SHOW SCHEMAS)")


def _check_ci(chk, case, real, reply) -> None:
    chk.case(("ci",), nontrivial=False)
    if "error" in real:
        chk.violation(f"connect(database='db1', schema='s1') + create table failed: {real['error']}", case, broken="C02 connect folds its arguments (conn.py:44-45)")
        return
    # model: duckFind reports the stored spelling `abc` for every reference; Snowflake's exact lookup only knows "abc"
    duck = common.dec_opt(reply["duck"])
    sf = common.dec_opt(reply["sf"])
    if real.get('"abc"') != ["abc"]:
        chk.violation(f'select "abc" from t reports {real.get(chr(34) + "abc" + chr(34))}', case, broken="C02_quoted_verbatim")
        return
    got = real.get("ABC")
    if sf is None and got == [duck]:
        chk.finding(KEY_CI, f'column created as "abc" is found by the unquoted reference ABC and reported as {got}', case)
    elif isinstance(got, str) and got.startswith("err:"):
        chk.notes.append(f"{KEY_CI} not reproduced: unquoted ABC no longer finds \"abc\" ({got})")
    else:
        chk.violation(f'`select ABC from t` (column created as "abc") reports {got}; code model (duckFind) says {[duck]}', case,
                      broken="C02_lookup_partial (correspondence with duckFind)")


def _check_dbpath(chk, case, real, reply) -> None:
    chk.case(("dbpath", case["first"], tuple(case["later"])), nontrivial=True)
    want_db = dec_str(dec_list(reply["norm"])[0])
    if "error" in real:
        chk.violation(f"persisted instance scenario failed: {real['error']}", case, broken="C02 connect arguments (db_path)")
        return
    for sp, got in zip(case["later"], real["later"]):
        if got[0] != want_db or got[2] != [1, 2]:
            chk.violation(f"instance persisted with connect(database={case['first']!r}) and reopened with connect(database={sp!r}): conn.database={got[0]!r} "
                          f"(folded name {want_db!r}), `select x from t1` -> {got[2]} (written rows [1, 2])", case,
                          broken="C02_reported_upper / C02_same_object (connect argument spelling with db_path)")
            return


def _check_var(chk, case, real, reply) -> None:
    chk.case(("var",), nontrivial=False)
    same_key = reply["set"] == reply["unset"]   # model: key of SET "VAR2" vs key of UNSET var2
    tag_reply = common.batch(["fold\tsettag\t" + enc_str("modify column a set tag cost = 'x'")])[0]
    tags = [real.get("settag:" + t) for t in ("lower", "upper", "mixed")]
    if tag_reply.get("settag") != "1" or tags[0] != tags[1] or tags[0] != tags[2] or str(tags[0]).startswith("err:"):
        chk.violation(f"`alter table mt modify column a set tag cost = 'x'` in lower / upper / mixed case -> {tags}; model rawHasSetTag(lower-case text) = "
                      f"{tag_reply.get('settag')}", case, broken="C02_raw_command_invariant (correspondence with rawHasSetTag)")
        return
    then_reply = common.batch(["fold\tthen\t" + enc_str("delete")])[0]
    if then_reply.get("delete") != "1" or real.get("merge:then delete") != [1]:
        chk.violation(f"`merge … when matched then delete` (lower case): target rows afterwards {real.get('merge:then delete')} (expected [1]); "
                      f"model thenIsDelete('delete') = {then_reply.get('delete')}", case, broken="C02_merge_then_invariant (correspondence with thenIsDelete)")
        return
    if real.get("unquoted:select") != 5 or real.get("unquoted:unset") != "ok":
        chk.violation(f"`set vAr1 = 5; select $VAR1; unset VAR1` -> {real}", case, broken="C02_variable_key_partial")
        return
    if real.get("quoted:select") == 5 and real.get("quoted:unset") == "ok":
        if not same_key:
            chk.notes.append(f"{KEY_VAR} not reproduced")
        return
    if not same_key and str(real.get("quoted:select")).startswith("err:") and real.get("quoted:unset") == "err:KeyError":
        chk.finding(KEY_VAR, f'`set "VAR2" = 5` then `select $var2` / `unset var2` -> {real}', case)
    else:
        chk.violation(f'`set "VAR2" = 5; select $var2; unset var2` -> {real}; code model keys set={reply["set"]} unset={reply["unset"]}', case,
                      broken="C02_variable_key_partial (correspondence with setKey/unsetKey)")


def _cases(chk) -> list[dict]:
    rnd = random.Random(chk.seed)
    n_twin = 260 if chk.tier == "quick" else 1500
    n_names = 80 if chk.tier == "quick" else 500
    cases = [{"kind": "ci"}, {"kind": "var"}] + [gen_dbpath_case(rnd) for _ in range(4 if chk.tier == "quick" else 40)]
    cases += [gen_names_case(rnd) for _ in range(n_names)]
    cases += [gen_twin_case(rnd) for _ in range(n_twin)]
    return cases


def _model_line(case) -> str:
    if case["kind"] == "names":
        return "fold\tnorm\t" + enc_list([("q" if q else "u") + enc_str(t) for t, q in case["ids"].values()])
    if case["kind"] == "dbpath":
        return "fold\tnorm\tu" + enc_str(case["first"])
    if case["kind"] == "var":
        return "fold\tvar\tq" + enc_str("VAR2") + "\tu" + enc_str("var2")
    if case["kind"] == "ci":
        return "fold\tfind\tu" + enc_str("ABC") + "\tq" + enc_str("abc")
    return "fold\tthen\t" + enc_str("DELETE")


def _judge(chk, case, real, reply) -> None:
    if case["kind"] == "twin":
        _check_twin(chk, case, real)
    elif case["kind"] == "names":
        _check_names(chk, case, real, reply)
    elif case["kind"] == "var":
        _check_var(chk, case, real, reply)
    elif case["kind"] == "dbpath":
        _check_dbpath(chk, case, real, reply)
    else:
        _check_ci(chk, case, real, reply)


def run(chk) -> None:
    cases = _cases(chk)
    chk.rule = ("(A) naming scenarios: 10 generated identifiers each (40 % quoted with spaces/symbols/non-ASCII, unquoted ASCII in random case, "
                "re-spelled in later statements) read back through status messages, description, DictCursor keys, DESCRIBE, information_schema, "
                "SHOW TABLES/SCHEMAS, USE, connect — compared with Ident.norm; (B) twin scripts of 10-20 statements drawn from ~60 statement "
                "templates (queries, DML, DDL, USE, MERGE, SHOW/DESCRIBE, SET, transactions, information_schema, errors) rendered with two "
                "independent spellings — complete outcomes compared.  non-trivial = every scenario / twin script")
    shards = common.chunks(cases, 16)
    reals = common.shard_map(_worker, shards)
    for shard, rs in zip(shards, reals):
        replies = common.batch([_model_line(c) for c in shard])
        for case, real, reply in zip(shard, rs, replies):
            _judge(chk, case, real, reply)
    tw = [c for c in cases if c["kind"] == "twin"]
    chk.samples = [{"a": c["a"][4:7], "b": c["b"][4:7]} for c in tw[:3]]
    chk.extra["statement_templates"] = len({kk for kk in chk.dist if kk.startswith("stmt:")})
    chk.assumptions = [
        "unquoted identifiers are ASCII [A-Za-z_][A-Za-z0-9_]* (no `$`: variable substitution is C15's) (Python's str.upper() is Unicode, the model's is ASCII) and not reserved words",
        "a quoted name is only referenced by its exact spelling, or unquoted when it is the upper-case form (DuckDB matches names case-insensitively: C02/quoted-name-matched-case-insensitively)",
        "session variable names are only re-cased, never quoted (C02/quoted-variable-name); no `$` inside identifiers (C15)",
        "error outcomes are compared by class, errno and sqlstate, not by message text",
    ]
    chk.trusted.append("sqlglot builds the same tree for two spellings of keywords and keeps identifier text + quoted flag; DuckDB matches "
                       "names case-insensitively and reports stored spellings (modelled by duckFind) — exercised by every twin run")


def replay(chk, case) -> None:
    real = _worker([case])[0]
    reply = common.batch([_model_line(case)])[0]
    _judge(chk, case, real, reply)
