#!/usr/bin/env python3
"""Writes MANIFEST.json from the table below (single source of truth for the claims)."""
import json
from pathlib import Path

ROOT = Path(__file__).resolve().parents[1]
ALL = [f"C{i:02d}" for i in range(1, 21)]

CLAIMS = {
    "C05": dict(
        text="Lean theorems over the model of fetchone/fetchmany/fetchall/arraysize/execute-reset (Fs.Fetch): for every op sequence and every "
             "result, rows handed out are a prefix of the result in order (C05_prefix), fetchall completes it exactly (C05_fetchall_complete), "
             "exhaustion is permanent (C05_exhausted), no-result-set error before execute (C05_no_result), execute replaces the result "
             "(C05_replace), tuple width = column count and dict rows keyed by description names (C05_width, C05_dict_keys). The model is tied "
             "to the real cursor by exhaustive small + random long op sequences and all column-name shapes on every run.",
        ref="DESIGN.md §3 C05",
        note="Trusted: Lean kernel + standard axioms; the hand-written model Fs/Model/Fetch.lean (validated differentially, exhaustive to "
             "length 3/4); pyarrow slice/to_pylist; DuckDB result order under ORDER BY.",
        technique="Lean 4 proof (simulation to an abstract read position + induction over op lists) + model/implementation correspondence check",
    ),
}

NOT_YET = "check not built yet in this session (Lean model + correspondence planned in DESIGN.md §3); no claim is made"


def main():
    checks = []
    for pid in ALL:
        if pid not in CLAIMS:
            continue
        c = CLAIMS[pid]
        checks.append({
            "property_id": pid,
            "quick_cmd": f"/venv/bin/python harness/check.py {pid} quick",
            "thorough_cmd": f"/venv/bin/python harness/check.py {pid} thorough",
            "evidence_file": f"evidence/{pid}.json",
            "replay_cmd_template": f"/venv/bin/python harness/check.py {pid} quick --replay {{path}}",
            "engine": "lean4-fs",
            "level_claimed": {"category": "proof", "text": c["text"], "design_ref": c["ref"]},
            "level_note": c["note"],
            "technique": c["technique"],
        })
    man = {
        "version": 1,
        "setup_cmd": "cd lean && lake build",
        "hooks": {
            "guard": "FAKESNOW_VERIF",
            "enable": "no source hooks are needed: the harness drives /repo through its public API (editable install, current working tree)",
            "baseline_off_cmd": "harness/run_baseline.sh",
            "source_commits": [],
            "add_only": True,
        },
        "engines": [{
            "name": "lean4-fs", "path": "lean",
            "serves_properties": [c["property_id"] for c in checks],
            "kind_free_text": "Lean 4.33 library Fs (models, proofs, property theorems) + compiled line-protocol driver `drv`; "
                              "harness/check.py runs build, axiom audit and the model/implementation correspondence",
        }],
        "checks": checks,
        "not_applicable": [{"property_id": p, "reason": NOT_YET} for p in ALL if p not in CLAIMS],
        "notes": "Every check: lake build (no-op when fresh) -> grep for sorry/axiom/native_decide -> #print axioms audit of the property's "
                 "theorems -> correspondence of the Lean model with /repo's working tree through the public API. KNOWN_FINDINGS.txt lists "
                 "recorded findings (known:) and repaired defects (fixed:).",
    }
    (ROOT / "MANIFEST.json").write_text(json.dumps(man, indent=1) + "\n")


if __name__ == "__main__":
    main()
