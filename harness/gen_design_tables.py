#!/usr/bin/env python3
"""Regenerates DESIGN.md §9 (seeded changes and which check catches them) and §10 (findings) from seeded/*/*/meta.json
and KNOWN_FINDINGS.txt, between the markers <!-- GEN:BEGIN --> and <!-- GEN:END -->."""
import json
import re
from pathlib import Path

ROOT = Path(__file__).resolve().parents[1]


def main():
    rows = []
    for mf in sorted((ROOT / "seeded").glob("*/*/meta.json")):
        m = json.loads(mf.read_text())
        v = m.get("verified", {})
        caught = "caught" if v.get("check_violation") else "**missed**"
        says = (v.get("check_says") or "").splitlines()
        says = says[0][:160].replace("|", "\\|") if says else ""
        rows.append(f"| {mf.parent.parent.name}/{mf.parent.name} | {m.get('breaks', '')[:200].replace('|', '/')} | {m.get('needs_to_manifest', '')[:160].replace('|', '/')} | "
                    f"{caught} | {m.get('check_result', '')[:200].replace('|', '/')} |")
    known, fixed = [], []
    for line in (ROOT / "KNOWN_FINDINGS.txt").read_text().splitlines():
        m = re.match(r"known:\s+property=(\S+)\s+key=(\S+)\s*(?:witness=\S+\s*)?::\s*(.*)", line)
        if m:
            known.append(f"| {m.group(1)} | `{m.group(2)}` | {m.group(3)[:220].replace('|', '/')} |")
        m = re.match(r"fixed:\s+property=(\S+)\s+(\S+)\s+key=(\S+)\s*::\s*(.*)", line)
        if m:
            fixed.append(f"| {m.group(1)} | `{m.group(3)}` | {m.group(2)} | {m.group(4)[:200].replace('|', '/')} |")
    # per-property as-built summary from claims + evidence
    built = []
    for pid in [f"C{i:02d}" for i in range(1, 21)]:
        cf = ROOT / "harness" / "claims" / f"{pid}.json"
        ef = ROOT / "evidence" / f"{pid}.json"
        if not cf.exists():
            built.append(f"| {pid} | not claimed | | | | |")
            continue
        c = json.loads(cf.read_text())
        ev = json.loads(ef.read_text()) if ef.exists() else {}
        cov = ev.get("coverage", {})
        ths = ", ".join(t["theorem"] for t in cov.get("theorems", [])[:40])
        partial = "partial" if "partial" in c["text"][:400].lower() else "full"
        built.append(f"| {pid} | {partial} | {cov.get('discharged', '?')}/{cov.get('obligations', '?')} | {cov.get('evaluations', '?')} ({ev.get('tier', '?')}, "
                     f"{ev.get('wall_s', '?')} s) | `design/{pid}.md` | {ths[:700]} |")
    gen = ["<!-- GEN:BEGIN -->", "", "## 8a. As built, per property (generated from harness/claims and the last evidence files)", "",
           "| id | claim | theorems checked | correspondence cases (tier, wall) | as-built note | theorems |", "|---|---|---|---|---|---|", *built, "", "## 9. Seeded changes (independent sub-agents, property text only) and what catches them", "",
           "Each change was confirmed in a scratch worktree (`harness/seeded.py`: unedited suite still 196 passed; demo fails with / passes "
           "without the change) and then applied to `/repo`, the property's quick check run, and undone.", "",
           "| seeded | change | needs | quick check | how it is caught / what was strengthened |", "|---|---|---|---|---|", *rows, "",
           "## 10. Findings", "", "### Repaired (`fix:` commits in /repo)", "", "| property | key | commit | what failed |", "|---|---|---|---|", *fixed, "",
           "### Recorded (`known:`; the check prints KNOWN-FINDING and exits 0)", "", "| property | key | what fails |", "|---|---|---|", *known, "",
           "<!-- GEN:END -->"]
    p = ROOT / "DESIGN.md"
    s = p.read_text()
    if "<!-- GEN:BEGIN -->" in s:
        s = s[:s.index("<!-- GEN:BEGIN -->")] + "\n".join(gen) + s[s.index("<!-- GEN:END -->") + len("<!-- GEN:END -->"):]
    else:
        s = s.rstrip("\n") + "\n\n" + "\n".join(gen) + "\n"
    p.write_text(s)


if __name__ == "__main__":
    main()
