#!/usr/bin/env python3
"""Regenerates DESIGN.md §9 (seeded changes and which check catches them) and §10 (findings) from seeded/*/*/meta.json
and KNOWN_FINDINGS.txt, between the markers <!-- GEN:BEGIN --> and <!-- GEN:END -->."""
import json
import re
from pathlib import Path

ROOT = Path(__file__).resolve().parents[1]


def main():
    rows = []
    for mf in sorted((ROOT / "seeded").glob("*/*/meta.json")):
        m = json.loads(mf.read_text())
        v = m.get("verified", {})
        caught = "caught" if v.get("check_violation") else ("patch no longer applies" if not v.get("applies", True) else
                                                            "no longer a defect (demo passes)" if v.get("kept") is False else "**missed**")
        before = (v.get("check_says") or "").split("VIOLATION")[0].rstrip().splitlines()
        says = ("… " + before[-1].strip()[-230:]).replace("|", "/") if before and v.get("check_violation") else ""
        breaks = m.get("breaks", "")
        if not breaks or breaks.lstrip().startswith(("```", "cd /tmp", "-", "+", "*")):
            # rounds 2+: the sub-agent's notes.md — its title line, else its first prose line
            nf = mf.parent / "notes.md"
            lines = [l.strip() for l in nf.read_text().splitlines()] if nf.exists() else []
            title = next((l.lstrip("# ").strip() for l in lines if l.startswith("#") and len(l) > 12), "")
            prose = next((l for l in lines if l and not l.startswith(("#", "```", "|", "-", "*", "cd ", "$"))), "")
            breaks = title if len(title) > 25 else (title + " — " + prose if title else prose)
        how = m.get("check_result", "") or says
        rows.append(f"| {mf.parent.parent.name}/{mf.parent.name} | {breaks[:240].replace('|', '/')} | {m.get('needs_to_manifest', '')[:160].replace('|', '/')} | "
                    f"{caught} | {how[:260].replace('|', '/')} |")
    known, fixed = [], []
    for line in (ROOT / "KNOWN_FINDINGS.txt").read_text().splitlines():
        m = re.match(r"known:\s+property=(\S+)\s+key=(\S+)\s*(?:witness=\S+\s*)?::\s*(.*)", line)
        if m:
            known.append(f"| {m.group(1)} | `{m.group(2)}` | {m.group(3)[:220].replace('|', '/')} |")
        m = re.match(r"fixed:\s+property=(\S+)\s+(\S+)\s+key=(\S+)\s*::\s*(.*)", line)
        if m:
            fixed.append(f"| {m.group(1)} | `{m.group(3)}` | {m.group(2)} | {m.group(4)[:200].replace('|', '/')} |")
    # per-property as-built summary from claims + evidence
    built = []
    for pid in [f"C{i:02d}" for i in range(1, 21)]:
        cf = ROOT / "harness" / "claims" / f"{pid}.json"
        ef = ROOT / "evidence" / f"{pid}.json"
        if not cf.exists():
            built.append(f"| {pid} | not claimed | | | | |")
            continue
        c = json.loads(cf.read_text())
        ev = json.loads(ef.read_text()) if ef.exists() else {}
        cov = ev.get("coverage", {})
        ths = ", ".join(t["theorem"] for t in cov.get("theorems", [])[:40])
        partial = "partial" if "partial" in c["text"][:400].lower() else "full"
        built.append(f"| {pid} | {partial} | {cov.get('discharged', '?')}/{cov.get('obligations', '?')} | {cov.get('evaluations', '?')} ({ev.get('tier', '?')}, "
                     f"{ev.get('wall_s', '?')} s) | `design/{pid}.md` | {ths[:700]} |")
    gen = ["<!-- GEN:BEGIN -->", "", "## 8a. As built, per property (generated from harness/claims and the last evidence files)", "",
           "| id | claim | theorems checked | correspondence cases (tier, wall) | as-built note | theorems |", "|---|---|---|---|---|---|", *built, "", "## 9. Seeded changes (independent sub-agents, property text only) and what catches them", "",
           "Each change was confirmed in a scratch worktree (`harness/seeded.py`: unedited suite still 196 passed; demo fails with / passes "
           "without the change) and then the property's quick check was run with the change applied — to `/repo` itself (applied, checked, undone), or, where meta.json says `check_against`, to a scratch worktree handed to the check through `VERIF_REPO` while `/repo` was in use. The last column is the first line the check reported (or a note on what was strengthened).", "",
           "| seeded | change | needs | quick check | how it is caught / what was strengthened |", "|---|---|---|---|---|", *rows, "",
           "## 10. Findings", "", "### Repaired (`fix:` commits in /repo)", "", "| property | key | commit | what failed |", "|---|---|---|---|", *fixed, "",
           "### Recorded (`known:`; the check prints KNOWN-FINDING and exits 0)", "", "| property | key | what fails |", "|---|---|---|", *known, "",
           "<!-- GEN:END -->"]
    p = ROOT / "DESIGN.md"
    s = p.read_text()
    if "<!-- GEN:BEGIN -->" in s:
        s = s[:s.index("<!-- GEN:BEGIN -->")] + "\n".join(gen) + s[s.index("<!-- GEN:END -->") + len("<!-- GEN:END -->"):]
    else:
        s = s.rstrip("\n") + "\n\n" + "\n".join(gen) + "\n"
    p.write_text(s)


if __name__ == "__main__":
    main()
