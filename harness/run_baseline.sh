#!/bin/bash
# runs the repository's pinned test suite with the verification guard OFF; prints the summary line
cd /repo && env -u FAKESNOW_VERIF /venv/bin/python -m pytest -ra -q -p no:cacheprovider --timeout=900 --continue-on-collection-errors "$@"
