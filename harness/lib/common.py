"""Shared machinery of every check: Lean build + axiom audit, the model driver, known findings,
verdict collection, evidence and replay files.  See DESIGN.md §1.2-1.4.

Exit codes of a check: 0 = property held on everything explored (known findings are printed as
KNOWN-FINDING lines), 1 = at least one VIOLATION line was printed, 2 = infrastructure failure.
"""
from __future__ import annotations

import json
import os
import re
import subprocess
import sys
import time
from pathlib import Path

VERIF = Path(__file__).resolve().parents[2]
LEAN = VERIF / "lean"
EVIDENCE = VERIF / "evidence"
REPLAYS = VERIF / "replays"
CORPUS = VERIF / "corpus"
KNOWN_FILE = VERIF / "KNOWN_FINDINGS.txt"
REPO = Path(os.environ.get("VERIF_REPO", "/repo"))

ALLOWED_AXIOMS = {"propext", "Classical.choice", "Quot.sound"}
FORBIDDEN = re.compile(r"\b(sorry|admit|native_decide|bv_decide|implemented_by|unsafe)\b|^axiom\s|maxHeartbeats\s+0")

TRUSTED_BASE = [
    "Lean 4.33.0 kernel; axioms propext, Classical.choice, Quot.sound only (audited per theorem on every run)",
    "hand-written Lean model of the anchored fakesnow code (Fs/Model/*), tied to /repo only by this run's correspondence cases",
    "harness: case generator, renderer to SQL/API calls, canonicalisation of observations",
]


class Infra(Exception):
    """infrastructure failure (exit 2), never a violation"""


def seed() -> int:
    try:
        return int(os.environ.get("VERIF_SEED", "0"))
    except ValueError:
        return 0


# ----------------------------------------------------------------------------------------------
# Lean side
# ----------------------------------------------------------------------------------------------

def lean_build() -> tuple[bool, str]:
    """`lake build` (library + driver).  No-op when up to date."""
    p = subprocess.run(["lake", "build"], cwd=LEAN, capture_output=True, text=True, timeout=1800)
    return p.returncode == 0, (p.stdout + p.stderr)[-4000:]


def strip_comments(src: str) -> str:
    out, i, depth = [], 0, 0
    n = len(src)
    while i < n:
        if src.startswith("/-", i):
            depth += 1
            i += 2
        elif depth and src.startswith("-/", i):
            depth -= 1
            i += 2
        elif depth:
            if src[i] == "\n":
                out.append("\n")
            i += 1
        elif src.startswith("--", i):
            while i < n and src[i] != "\n":
                i += 1
        else:
            out.append(src[i])
            i += 1
    return "".join(out)


def grep_forbidden() -> list[str]:
    hits = []
    for f in sorted(list((LEAN / "Fs").rglob("*.lean")) + [LEAN / "Main.lean", LEAN / "Fs.lean"]):
        code = strip_comments(f.read_text())
        for ln, line in enumerate(code.split("\n"), 1):
            if FORBIDDEN.search(line):
                hits.append(f"{f.relative_to(VERIF)}:{ln}: {line.strip()[:120]}")
    return hits


def property_theorems(pid: str) -> list[str]:
    f = LEAN / "Fs" / "Props" / f"{pid}.lean"
    if not f.exists():
        return []
    code = strip_comments(f.read_text())
    return re.findall(r"^theorem\s+([A-Za-z0-9_'.]+)", code, flags=re.M)


def audit(pid: str) -> dict:
    """`#print axioms` for every theorem stated in Fs/Props/<pid>.lean."""
    names = property_theorems(pid)
    if not names:
        raise Infra(f"no theorems found in Fs/Props/{pid}.lean")
    tmp = LEAN / ".lake" / f"Audit_{pid}_{os.getpid()}.lean"
    tmp.parent.mkdir(exist_ok=True)
    tmp.write_text(f"import Fs.Props.{pid}\n" + "".join(f"#print axioms Fs.{pid}.{n}\n" for n in names))
    try:
        p = subprocess.run(["lake", "env", "lean", str(tmp)], cwd=LEAN, capture_output=True, text=True, timeout=900)
    finally:
        tmp.unlink(missing_ok=True)
    text = p.stdout + p.stderr
    res = {}
    for m in re.finditer(r"'Fs\.%s\.([^']+)' (does not depend on any axioms|depends on axioms: \[([^\]]*)\])" % pid, text):
        axs = [a.strip() for a in (m.group(3) or "").replace("\n", " ").split(",") if a.strip()]
        res[m.group(1)] = axs
    details = []
    discharged = 0
    for n in names:
        if n not in res:
            details.append({"theorem": n, "ok": False, "axioms": None})
            continue
        ok = set(res[n]) <= ALLOWED_AXIOMS
        discharged += ok
        details.append({"theorem": n, "ok": ok, "axioms": res[n]})
    return {"obligations": len(names), "discharged": discharged, "theorems": details,
            "raw_tail": text[-1500:] if discharged != len(names) else ""}


def fs_imports(pid: str) -> list[str]:
    """Fs modules that Fs/Props/<pid>.lean depends on (transitively), itself first."""
    seen, todo = [], [f"Fs.Props.{pid}"]
    while todo:
        m = todo.pop()
        if m in seen:
            continue
        seen.append(m)
        f = LEAN / (m.replace(".", "/") + ".lean")
        if f.exists():
            todo += re.findall(r"^import (Fs\.[\w.]+)", f.read_text(), flags=re.M)
    return seen


def leancheck(pid: str) -> dict:
    """Thorough tier: replay the compiled .olean files of the property's modules through `leanchecker`
    (the toolchain's independent kernel re-checker)."""
    mods = fs_imports(pid)
    try:
        p = subprocess.run(["lake", "env", "leanchecker", *mods], cwd=LEAN, capture_output=True, text=True, timeout=1800)
    except FileNotFoundError:
        return {"ran": False, "reason": "leanchecker not on PATH", "modules": mods}
    except subprocess.TimeoutExpired:
        raise Infra("leanchecker timed out")
    return {"ran": True, "ok": p.returncode == 0, "modules": mods, "output_tail": (p.stdout + p.stderr)[-800:]}


class Driver:
    """Persistent model driver (compiled `drv`, or `lake env lean --run Main.lean` if it did not link)."""

    def __init__(self) -> None:
        exe = LEAN / ".lake" / "build" / "bin" / "drv"
        cmd = [str(exe)] if exe.exists() else ["lake", "env", "lean", "--run", "Main.lean"]
        self.p = subprocess.Popen(cmd, cwd=LEAN, stdin=subprocess.PIPE, stdout=subprocess.PIPE, text=True, bufsize=1)
        self.calls = 0

    def ask(self, *fields: str) -> dict:
        line = "\t".join(fields)
        assert "\n" not in line
        self.p.stdin.write(line + "\n")
        self.p.stdin.flush()
        out = self.p.stdout.readline()
        if not out:
            raise Infra(f"model driver died on: {line[:200]}")
        self.calls += 1
        return parse_reply(out.rstrip("\n"))

    def close(self) -> None:
        try:
            self.p.stdin.close()
            self.p.wait(timeout=10)
        except Exception:
            self.p.kill()


def batch(lines: list[str]) -> list[dict]:
    """Run the driver once over many request lines."""
    exe = LEAN / ".lake" / "build" / "bin" / "drv"
    cmd = [str(exe)] if exe.exists() else ["lake", "env", "lean", "--run", "Main.lean"]
    p = subprocess.run(cmd, cwd=LEAN, input="".join(l + "\n" for l in lines), capture_output=True, text=True, timeout=3600)
    outs = p.stdout.split("\n")
    if outs and outs[-1] == "":
        outs.pop()
    if p.returncode != 0 or len(outs) != len(lines):
        raise Infra(f"model driver: rc={p.returncode}, {len(outs)} replies for {len(lines)} requests: {p.stderr[-500:]}")
    return [parse_reply(o) for o in outs]


def parse_reply(out: str) -> dict:
    if "=" not in out:
        return {"_raw": out}
    d = {"_raw": out}
    for f in out.split("\t"):
        k, _, v = f.partition("=")
        d[k] = v
    return d


# wire encoding (mirror of Fs/Core/Wire.lean)
def enc_str(s: str) -> str:
    return "e" if s == "" else " ".join(str(ord(c)) for c in s)


def dec_str(s: str) -> str:
    return "" if s == "e" else "".join(chr(int(t)) for t in s.split(" "))


def enc_opt(s: str | None) -> str:
    return "-" if s is None else enc_str(s)


def dec_opt(s: str) -> str | None:
    return None if s == "-" else dec_str(s)


def enc_list(xs: list[str]) -> str:
    return "[]" if not xs else ";".join(xs)


def dec_list(s: str) -> list[str]:
    return [] if s == "[]" else s.split(";")


# ----------------------------------------------------------------------------------------------
# known findings
# ----------------------------------------------------------------------------------------------

def known_findings(pid: str) -> dict[str, str]:
    """key -> description, for `known:` lines of this property.  Never written at run time."""
    out = {}
    if KNOWN_FILE.exists():
        for line in KNOWN_FILE.read_text().splitlines():
            m = re.match(r"known:\s+property=(\S+)\s+key=(\S+)\s*(?:witness=\S+\s*)?::\s*(.*)", line)
            if m and m.group(1) == pid:
                out[m.group(2)] = m.group(3)
    return out


# ----------------------------------------------------------------------------------------------
# verdict / evidence
# ----------------------------------------------------------------------------------------------

class Check:
    def __init__(self, pid: str, tier: str) -> None:
        self.pid, self.tier, self.seed = pid, tier, seed()
        self.t0 = time.time()
        self.known = known_findings(pid)
        self.known_hit: dict[str, int] = {}
        self.violations: list[dict] = []
        self.evaluations = 0
        self.nontrivial: set = set()
        self.samples: list = []
        self.dist: dict[str, int] = {}
        self.notes: list[str] = []
        self.rule = ""
        self.exhaustive = False
        self.audit: dict = {}
        self.extra: dict = {}
        self.assumptions: list[str] = []
        self.trusted = list(TRUSTED_BASE)

    # -- bookkeeping -------------------------------------------------------------------------
    def count(self, key: str, n: int = 1) -> None:
        self.dist[key] = self.dist.get(key, 0) + n

    def case(self, fingerprint, nontrivial: bool = True, sample=None) -> None:
        self.evaluations += 1
        if nontrivial:
            self.nontrivial.add(fingerprint)
        if sample is not None and len(self.samples) < 8:
            self.samples.append(sample)

    def finding(self, key: str, what: str, case) -> None:
        """A case whose real behaviour differs from the specification.  Listed `known:` key -> KNOWN-FINDING,
        anything else -> violation."""
        if key in self.known:
            self.known_hit[key] = self.known_hit.get(key, 0) + 1
        else:
            self.violation(what, case, broken=key)

    def violation(self, what: str, case, broken: str = "", failing_input: bool = True) -> None:
        if len(self.violations) < 50:
            self.violations.append({"what": what, "case": case, "broken": broken, "failing_input": failing_input})

    # -- finish ------------------------------------------------------------------------------
    def finish(self) -> int:
        EVIDENCE.mkdir(exist_ok=True)
        wall = round(time.time() - self.t0, 2)
        cov = {
            "obligations": self.audit.get("obligations", 0),
            "discharged": self.audit.get("discharged", 0),
            "checker_cmd": f"cd lean && lake build && lake env lean <#print axioms of every theorem in Fs/Props/{self.pid}.lean>",
            "trusted_base": self.trusted,
            "theorems": self.audit.get("theorems", []),
            "evaluations": self.evaluations,
            "distinct_nontrivial": len(self.nontrivial),
            "rule": self.rule,
            "samples": self.samples,
            "exhaustive": self.exhaustive,
            "distribution": self.dist,
            "known_findings_hit": self.known_hit,
            "notes": self.notes,
        }
        cov.update(self.extra)
        ev = {
            "property_id": self.pid, "tier": self.tier, "seed": self.seed, "level": "proof",
            "coverage": cov, "assumptions": self.assumptions, "wall_s": wall, "violations": len(self.violations),
        }
        (EVIDENCE / f"{self.pid}.json").write_text(json.dumps(ev, indent=1, default=str) + "\n")
        for key, n in sorted(self.known_hit.items()):
            print(f"KNOWN-FINDING: property={self.pid} {key} {self.known[key]} (reproduced on {n} case(s))")
        if self.violations:
            REPLAYS.mkdir(exist_ok=True)
            # one replay file per distinct broken obligation, the first (smallest) case of each
            seen = {}
            for v in self.violations:
                seen.setdefault(v["broken"], v)
            for i, (b, v) in enumerate(seen.items()):
                path = REPLAYS / f"{self.pid}-{self.seed}-{i}.json"
                path.write_text(json.dumps({"property": self.pid, "tier": self.tier, "seed": self.seed,
                                            "broken": b, "what": v["what"], "case": v["case"]}, indent=1, default=str) + "\n")
                tail = "" if v["failing_input"] else " no-failing-input-found"
                print(f"  {v['what']}"[:600])
                print(f"VIOLATION property={self.pid} replay={path.relative_to(VERIF)}{tail}")
            return 1
        print(f"OK property={self.pid} tier={self.tier} seed={self.seed} theorems={cov['discharged']}/{cov['obligations']} "
              f"cases={self.evaluations} distinct_nontrivial={len(self.nontrivial)} wall={wall}s")
        return 0


def prepare(chk: Check) -> bool:
    """Build + grep + axiom audit.  Returns False when the proof side no longer checks (a violation
    `no-failing-input-found` has then been recorded unless the correspondence finds a failing input)."""
    ok, log = lean_build()
    if not ok:
        chk.violation("Lean build failed: the model/proofs no longer check\n" + log[-1500:],
                      {"lean_build_log_tail": log[-1500:]}, broken="lake build", failing_input=False)
        return False
    hits = grep_forbidden()
    if hits:
        chk.violation("forbidden construct in Lean sources: " + "; ".join(hits[:5]), {"hits": hits},
                      broken="no sorry/axiom/native_decide audit", failing_input=False)
        return False
    chk.audit = audit(chk.pid)
    bad = [t for t in chk.audit["theorems"] if not t["ok"]]
    if bad:
        chk.violation(f"theorems not checked or using non-standard axioms: {bad}", {"theorems": bad, "raw": chk.audit["raw_tail"]},
                      broken=",".join(t["theorem"] for t in bad), failing_input=False)
        return False
    if chk.tier == "thorough":
        lc = leancheck(chk.pid)
        chk.extra["leanchecker"] = lc
        if lc.get("ran") and not lc["ok"]:
            chk.violation("leanchecker rejects the compiled modules: " + lc["output_tail"], lc,
                          broken="leanchecker", failing_input=False)
            return False
    return True


def shard_map(fn, shards: list, procs: int | None = None) -> list:
    """Run fn(shard) over worker processes (fork); results in shard order."""
    import multiprocessing as mp
    procs = procs or min(len(shards), int(os.environ.get("VERIF_PROCS", "0")) or (os.cpu_count() or 4))
    if procs <= 1 or len(shards) <= 1:
        return [fn(s) for s in shards]
    ctx = mp.get_context("fork")
    with ctx.Pool(procs) as pool:
        return pool.map(fn, shards, chunksize=1)


def chunks(xs: list, n: int) -> list[list]:
    n = max(1, n)
    return [xs[i::n] for i in range(n) if xs[i::n]]
