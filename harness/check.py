#!/venv/bin/python
"""Entry point of every registered check:  check.py <property-id> <quick|thorough> [--replay <file>]"""
from __future__ import annotations

import importlib
import json
import os
import sys
import traceback
from pathlib import Path

sys.path.insert(0, str(Path(__file__).resolve().parent))
os.environ.setdefault("FAKESNOW_VERIF", "1")
# VERIF_REPO=<dir> points the harness at a scratch checkout of tekumara/fakesnow instead of /repo (development only)
if os.environ.get("VERIF_REPO") and os.environ["VERIF_REPO"] != "/repo":
    sys.path.insert(0, os.environ["VERIF_REPO"])
    os.environ["PYTHONPATH"] = os.environ["VERIF_REPO"] + os.pathsep + os.environ.get("PYTHONPATH", "")

from lib import common  # noqa: E402

import logging  # noqa: E402

logging.getLogger("sqlglot").setLevel(logging.ERROR)  # 'contains unsupported syntax' warnings are noise here


def main() -> int:
    if len(sys.argv) < 3:
        print(__doc__)
        return 2
    pid, tier = sys.argv[1].upper(), sys.argv[2]
    tier = os.environ.get("VERIF_TIER", tier)
    mod = importlib.import_module(f"props.{pid.lower()}")
    chk = common.Check(pid, tier)
    try:
        if "--replay" in sys.argv:
            path = Path(sys.argv[sys.argv.index("--replay") + 1])
            if not path.is_absolute() and not path.exists():
                path = common.VERIF / path
            rep = json.loads(path.read_text())
            ok, log = common.lean_build()
            if not ok:
                raise common.Infra("lean build failed:\n" + log)
            mod.replay(chk, rep["case"])
            chk.audit = {"obligations": 0, "discharged": 0, "theorems": []}
            # a replay never rewrites the evidence of the registered check
            for v in chk.violations:
                print("  " + v["what"][:800])
                print(f"VIOLATION property={pid} replay={path}")
            if not chk.violations:
                print(f"replay: no violation on the current tree ({path})")
            return 1 if chk.violations else 0
        if common.prepare(chk):
            mod.run(chk)
        elif hasattr(mod, "search"):
            # proof side broken: look for a failing input with the python-side oracle only
            mod.search(chk)
        return chk.finish()
    except common.Infra as e:
        print(f"INFRA property={pid}: {e}", file=sys.stderr)
        return 2
    except Exception:
        traceback.print_exc()
        print(f"INFRA property={pid}: harness crashed", file=sys.stderr)
        return 2


if __name__ == "__main__":
    sys.exit(main())
