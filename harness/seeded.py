#!/venv/bin/python
"""Evaluate seeded changes:  seeded.py [<id>[/<m>] ...]   (default: all under seeded/)

For each seeded/<id>/<m>/: (1) in a scratch worktree of /repo: apply patch.diff, run the pinned test suite (must match the
baseline), run demo.py (must exit 1), then on the clean worktree demo.py must exit 0; (2) apply the patch to /repo itself, run
the property's quick check (must print VIOLATION), undo.  Results are written to seeded/<id>/<m>/meta.json["verified"].
Never leaves /repo modified.
"""
import json
import os
import re
import subprocess
import sys
from pathlib import Path

ROOT = Path(__file__).resolve().parents[1]
PY = "/venv/bin/python"


def sh(cmd, **kw):
    return subprocess.run(cmd, shell=isinstance(cmd, str), capture_output=True, text=True, **kw)


def record_check(res: dict, c) -> None:
    out = c.stdout
    res["check_exit"] = c.returncode
    vio = [l for l in out.splitlines() if l.startswith("VIOLATION")]
    res["check_violation"] = bool(vio) and c.returncode == 1
    idx = out.find("VIOLATION")
    res["check_says"] = out[max(0, idx - 700):idx + 120].strip()[-820:] if vio else out.strip()[-300:]


def evaluate(d: Path) -> dict:
    pid = d.parent.name
    patch = d / "patch.diff"
    wt = Path(f"/tmp/sw-{pid}-{d.name}")
    res = {}
    sh(f"git -C /repo worktree remove --force {wt}")
    assert sh(f"git -C /repo worktree add -q --detach {wt}").returncode == 0
    try:
        r = sh(f"git -C {wt} apply {patch}")
        if r.returncode != 0:
            # the tree has moved since the change was written: apply with fuzz and refresh patch.diff against the current HEAD
            r2 = sh(f"cd {wt} && patch -p1 -F3 --no-backup-if-mismatch < {patch}")
            if r2.returncode == 0:
                sh(f"cd {wt} && find . -name '*.orig' -delete -o -name '*.rej' -delete")
                patch.write_text(sh(f"git -C {wt} diff").stdout)
                res["patch_refreshed"] = True
                r = r2
        res["applies"] = r.returncode == 0
        if not res["applies"]:
            res["apply_error"] = (r.stderr + r.stdout)[-300:]
            return res
        t = sh(f"cd {wt} && {PY} -m pytest -q -p no:cacheprovider --timeout=900 -x --deselect tests/test_fakes.py::test_get_result_batches "
               f"--deselect tests/test_fakes.py::test_get_result_batches_dict 2>&1 | tail -3")
        res["tests"] = t.stdout.strip().splitlines()[-1] if t.stdout.strip() else "?"
        m = re.search(r"(\d+) passed", res["tests"])
        res["tests_pass"] = bool(m and int(m.group(1)) == 196 and not re.search(r"\d+ (failed|error)", res["tests"]))
        res["demo_with_change"] = sh(f"{PY} {d / 'demo.py'} {wt}", timeout=600).returncode
        sh(f"git -C {wt} checkout -- . && git -C {wt} clean -fdq")
        res["demo_without_change"] = sh(f"{PY} {d / 'demo.py'} {wt}", timeout=600).returncode
        if os.environ.get("SEEDED_SCRATCH"):
            # /repo is in use (e.g. a sweep is reading it): run the check against the scratch worktree through VERIF_REPO instead
            assert sh(f"git -C {wt} apply {patch}").returncode == 0
            res["check_against"] = "scratch worktree via VERIF_REPO"
            try:
                c = sh(f"cd {ROOT} && VERIF_REPO={wt} {PY} harness/check.py {pid} quick", timeout=600)
                record_check(res, c)
            except subprocess.TimeoutExpired:
                res.update(check_exit="timeout", check_violation=False, check_says="the quick check did not finish within 600 s with this change applied")
            res["kept"] = bool(res.get("tests_pass") and res.get("demo_with_change") == 1 and res.get("demo_without_change") == 0)
            return res
    finally:
        sh(f"git -C /repo worktree remove --force {wt}")
    # the registered check against /repo with the change applied
    assert sh("git -C /repo status --porcelain").stdout.strip() == "", "/repo is dirty"
    try:
        assert sh(f"git -C /repo apply {patch}").returncode == 0
        try:
            c = sh(f"cd {ROOT} && {PY} harness/check.py {pid} quick", timeout=600)
        except subprocess.TimeoutExpired:
            res.update(check_exit="timeout", check_violation=False, check_says="the quick check did not finish within 600 s with this change applied")
            res["kept"] = bool(res.get("tests_pass") and res.get("demo_with_change") == 1 and res.get("demo_without_change") == 0)
            return res
        record_check(res, c)
    finally:
        sh("git -C /repo checkout -- . && git -C /repo clean -fdq fakesnow")
    res["kept"] = bool(res.get("tests_pass") and res.get("demo_with_change") == 1 and res.get("demo_without_change") == 0)
    return res


def main():
    args = sys.argv[1:]
    dirs = []
    if not args:
        dirs = sorted(p.parent for p in (ROOT / "seeded").glob("*/*/patch.diff"))
    for a in args:
        p = ROOT / "seeded" / a
        dirs += [p] if (p / "patch.diff").exists() else sorted(x.parent for x in p.glob("*/patch.diff"))
    for d in dirs:
        res = evaluate(d)
        mf = d / "meta.json"
        meta = json.loads(mf.read_text()) if mf.exists() else {"property": d.parent.name}
        meta["verified"] = res
        mf.write_text(json.dumps(meta, indent=1) + "\n")
        print(f"{d.parent.name}/{d.name}: kept={res.get('kept')} tests={res.get('tests')!r} demo={res.get('demo_with_change')}/{res.get('demo_without_change')} "
              f"check_violation={res.get('check_violation')} (exit {res.get('check_exit')})")


if __name__ == "__main__":
    main()
