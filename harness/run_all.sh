#!/bin/bash
# run_all.sh [tier] [seeds...]   — every claimed check, each seed; one summary line per run (soundness sweep on the clean tree)
cd "$(dirname "$0")/.."
tier=${1:-quick}; shift
seeds=${@:-0}
ids=$(python3 -c "import json;print(' '.join(c['property_id'] for c in json.load(open('MANIFEST.json'))['checks']))")
(cd lean && lake build >/dev/null 2>&1)
for s in $seeds; do for id in $ids; do
  start=$(date +%s)
  out=$(VERIF_SEED=$s /venv/bin/python harness/check.py $id $tier 2>/dev/null); rc=$?
  echo "seed=$s $id rc=$rc $(( $(date +%s) - start ))s $(echo "$out" | grep -c '^KNOWN-FINDING') known | $(echo "$out" | grep -E '^(OK|VIOLATION)' | head -2 | cut -c1-160 | tr '\n' ' ')"
done; done
