#!/bin/bash
# resolve the generated-file conflicts of a `git merge build-X`, regenerate, rewrite fixed: hashes by commit subject, build
set -e
cd /verif
git checkout --ours MANIFEST.json lean/Fs.lean lean/Main.lean 2>/dev/null || true
for f in $(git diff --name-only --diff-filter=U | grep "^evidence/"); do git checkout --theirs "$f"; done
python3 harness/gen_manifest.py
python3 - <<'PY'
import re,subprocess
log=subprocess.run(['git','-C','/repo','log','--format=%h %s'],capture_output=True,text=True).stdout.splitlines()
main={l.split(' ',1)[1]:l.split(' ',1)[0] for l in log}
# all commits on any fix-* branch: subject by hash
allc=subprocess.run(['git','-C','/repo','log','--all','--format=%h %s'],capture_output=True,text=True).stdout.splitlines()
subj={l.split(' ',1)[0]:l.split(' ',1)[1] for l in allc}
p='KNOWN_FINDINGS.txt'
out=[]
for line in open(p).read().splitlines():
    m=re.match(r'(fixed:\s+property=\S+\s+)(\S+)(\s.*)',line)
    if m:
        h=m.group(2)
        cands=[k for k in subj if k.startswith(h[:7]) or h.startswith(k)]
        if cands and subj[cands[0]] in main and main[subj[cands[0]]]!=h:
            line=m.group(1)+main[subj[cands[0]]]+m.group(3)
    out.append(line)
open(p,'w').write('\n'.join(out)+'\n')
PY
git add -A
(cd lean && lake build 2>&1 | grep -E "error|Build completed" | head -20)
